package e2

import (
	"bytes"
	"encoding/json"
	"fmt"
	"os"
	"os/exec"
	"sort"
	"strings"
	"sync"
	"time"
	"unicode/utf8"

	gobinlog "github.com/Breeze0806/gobinlog"
	"verif/chk"
	"verif/hx"
	"verif/ref"
	"verif/simmaster"
)

// ---- script histories ---------------------------------------------------------

// scriptTables: id 1 -> shop.item (variant a: qty SMALLINT, variant b: qty INT),
// id 2 -> shop.audit, id 3 -> shop.item again under another table id.
func scriptTable(id int, variant bool) *ref.Table {
	switch id {
	case 1, 3:
		t := TA(uint64(100 + id))
		if variant {
			t.Cols[2] = ref.ColInt(ref.TLong, "qty", true)
			t.Cols[1] = ref.ColVarchar("label", 300) // 2-byte length prefix instead of 1
		}
		return t
	}
	return TB(102)
}

func scriptRow(t *ref.Table, k int64) ref.Image {
	if t.Name == "audit" {
		return rowB(uint64(k)<<33, fmt.Sprintf("n%d", k))
	}
	img := ref.Image{ref.VInt(ref.TLong, k, false), nil2(t, k), ref.Cell{}}
	img[2] = ref.VInt(t.Cols[2].Type, 40000+k, true)
	return img
}

func nil2(t *ref.Table, k int64) ref.Cell {
	max := int(t.Cols[1].MetaWord())
	return ref.VVarchar(max, []byte(fmt.Sprintf("label-%d", k)))
}

// BuildScript builds a one-file history from script tokens:
// B X C (begin, xid, commit), TM<i>[v] table map for id i (v = variant),
// W<i> U<i> D<i> rows events for id i (decoded with the latest map of i).
func BuildScript(cfg ref.Cfg, script []string) *ref.History {
	g := &Gen{Cfg: cfg}
	var evs []*ref.AEvent
	latest := map[int]*ref.Table{}
	k := int64(0)
	for _, tok := range script {
		ts := g.tick()
		k++
		switch {
		case tok == "B":
			evs = append(evs, ref.Q(ts, "shop", "BEGIN"))
		case tok == "X":
			evs = append(evs, ref.X(ts, uint64(7000+k)))
		case tok == "C":
			evs = append(evs, ref.Q(ts, "shop", "COMMIT"))
		case strings.HasPrefix(tok, "TM"):
			id := int(tok[2] - '0')
			t := scriptTable(id, strings.HasSuffix(tok, "v"))
			latest[id] = t
			evs = append(evs, ref.TM(ts, t))
		default:
			id := int(tok[1] - '0')
			t := latest[id]
			if t == nil {
				t = scriptTable(id, false) // rows for an id never announced: encoded with the default shape
			}
			switch tok[0] {
			case 'W':
				evs = append(evs, ref.R(ts, ref.RowWrite, t, ref.RowChange{After: scriptRow(t, k)}))
			case 'U':
				evs = append(evs, ref.R(ts, ref.RowUpdate, t, ref.RowChange{Before: scriptRow(t, k), After: scriptRow(t, k+500)}))
			case 'D':
				evs = append(evs, ref.R(ts, ref.RowDelete, t, ref.RowChange{Before: scriptRow(t, k)}))
			}
		}
	}
	h := &ref.History{Cfg: cfg, Files: []*ref.File{{Name: "mysql-bin.000001", Events: evs}}}
	h.Layout()
	return h
}

// AttrInput is the replay form of an attribution execution.
type AttrInput struct {
	Script     []string `json:"script"`
	Cfg        ref.Cfg  `json:"cfg"`
	MismatchAt int      `json:"mismatch_at"`
	FailAt     int      `json:"fail_at"`
}

func checkAttribution(in AttrInput) string {
	h := BuildScript(in.Cfg, in.Script)
	start := ref.Position{File: "mysql-bin.000001", Pos: 4}
	served, _ := h.Serve(start.File, 4)
	exp, stop := ref.Expect(served, start)
	if stop != nil {
		return "generator error: " + stop.Why
	}
	// mapper knows the base shapes (names and signedness by ordinal)
	mapper := hx.NewMapper(scriptTable(1, false), scriptTable(2, false))
	mapper.MismatchAt, mapper.FailAt = in.MismatchAt, in.FailAt
	out := Run(h, Opts{Start: start, ServerID: 3, LockStep: true, Mapper: mapper})
	if out.Hung {
		return "HUNG"
	}
	if out.StreamPanic[0] != "" {
		return "panic in Stream: " + out.StreamPanic[0]
	}
	// expected mapper calls: one per table id in order of first announcement
	var wantCalls []string
	seen := map[uint64]bool{}
	failIdx := -1 // served index of the table map whose lookup fails
	ncall := 0
	for i, e := range served {
		if e.Kind == ref.ATableMap && !seen[e.Table.ID] {
			if ncall == in.MismatchAt || ncall == in.FailAt {
				failIdx = i
				wantCalls = append(wantCalls, e.Table.DB+"."+e.Table.Name)
				break
			}
			seen[e.Table.ID] = true
			wantCalls = append(wantCalls, e.Table.DB+"."+e.Table.Name)
			ncall++
		}
	}
	var gotCalls []string
	for _, c := range mapper.Calls {
		gotCalls = append(gotCalls, c.DB+"."+c.Table)
	}
	if strings.Join(gotCalls, ",") != strings.Join(wantCalls, ",") {
		return fmt.Sprintf("mapper calls %v, expected one call per new table id in announcement order: %v", gotCalls, wantCalls)
	}
	if failIdx >= 0 {
		if out.StreamErr[0] == nil {
			return "the mapper's table disagrees with the table map (or the lookup failed) but Stream returned nil"
		}
		var before []ref.ExpTx
		for _, e := range exp {
			if e.CommitIndex < failIdx {
				before = append(before, e)
			}
		}
		if d := hx.CompareAll(before, out.Snaps()); d != "" {
			return "after a rejected table lookup: " + d
		}
		return ""
	}
	if out.StreamErr[0] != nil {
		return "Stream failed on a well-formed binlog: " + clip(out.StreamErr[0].Error(), 200)
	}
	return hx.CompareAll(exp, out.Snaps())
}

func attrKey(why string) string {
	switch {
	case strings.HasPrefix(why, "mapper calls"):
		return "attr:mapper-calls"
	case strings.Contains(why, "Stream returned nil"):
		return "attr:mismatch-accepted"
	case strings.Contains(why, "table "):
		return "attr:table-label"
	case strings.Contains(why, "after a rejected"):
		return "attr:after-rejection"
	case strings.Contains(why, "Stream failed"):
		return "attr:stream-error"
	case strings.HasPrefix(why, "panic"):
		return "attr:panic"
	}
	return "attr:row-decoding"
}

// RunAttribution is the end-to-end half of C15.
func RunAttribution(r *chk.Run) {
	stmts := [][]string{
		{"TM1", "W1"}, {"TM2", "U2"}, {"TM3", "D3"}, {"TM1v", "U1"}, {"TM3v", "W3"},
		{"TM1", "TM2", "W1", "W2"}, {"TM1", "TM2", "D2", "U1"}, {"TM1", "TM3", "W3", "W1"}, {"TM1v", "TM3", "U3", "D1"},
	}
	var txs [][]string
	for _, a := range stmts {
		txs = append(txs, append(append([]string{"B"}, a...), "X"))
		for _, b := range stmts {
			tx := append([]string{"B"}, a...)
			tx = append(tx, b...)
			txs = append(txs, append(tx, "C"))
		}
	}
	ntx := 2
	if r.Thorough() {
		ntx = 3
	}
	cfgs := []ref.Cfg{
		{Checksum: ref.ChecksumCRC32, RowsV2: true, TableID6: true, ServerID: 5, ServerVer: "5.7.30-log"},
		{Checksum: ref.ChecksumOff, RowsV2: false, TableID6: false, ServerID: 5, ServerVer: "5.5.62"},
	}
	type job struct{ in AttrInput }
	jobs := make(chan AttrInput, 256)
	done := make(chan struct{})
	var evals, trans int64
	go func() {
		r.Parallel(func(shard, n int) {
			for in := range jobs {
				why := checkAttribution(in)
				if why == "HUNG" {
					hungViolation(r, "C15", "attribution", in)
				}
				if why != "" {
					in2 := in
					r.Report(chk.Violation{Key: attrKey(why), What: fmt.Sprintf("script=%v cfg=%s mismatch_at=%d fail_at=%d: %s", in.Script, CfgName(in.Cfg), in.MismatchAt, in.FailAt, why),
						Kind: "attribution", Replay: in2, Recheck: func() string { return checkAttribution(in2) }})
				}
			}
		})
		close(done)
	}()
	count := 0
	var rec func(prefix []string, depth int)
	rec = func(prefix []string, depth int) {
		if depth > 0 {
			for ci, cfg := range cfgs {
				if r.Expired() {
					r.SetExhaustive(false)
					return
				}
				jobs <- AttrInput{Script: append([]string{}, prefix...), Cfg: cfg, MismatchAt: -1, FailAt: -1}
				count++
				trans += int64(len(prefix))
				if depth <= 2 && ci == 0 {
					for k := 0; k < 3; k++ {
						jobs <- AttrInput{Script: append([]string{}, prefix...), Cfg: cfg, MismatchAt: k, FailAt: -1}
						jobs <- AttrInput{Script: append([]string{}, prefix...), Cfg: cfg, MismatchAt: -1, FailAt: k}
						count += 2
					}
				}
			}
		}
		if depth == ntx {
			return
		}
		for _, tx := range txs {
			rec(append(append([]string{}, prefix...), tx...), depth+1)
		}
	}
	rec(nil, 0)
	close(jobs)
	<-done
	evals = int64(count)
	r.Eval(evals)
	r.States(evals)
	r.Transitions(trans)
	r.DistinctN(evals)
	r.Set("attribution_histories", count)
	r.Set("attribution_space", fmt.Sprintf("%d transaction shapes (1-2 statements over 9 statement shapes: 3 table ids, 2 tables, re-announcement with changed column types, multi-table statements) ^ 1..%d transactions x 2 configurations; mapper mismatch / failure at call 0..2 for <= 2 transactions", len(txs), ntx))
	r.Sample("attribution", map[string]interface{}{"script": []string{"B", "TM1", "TM3", "W3", "W1", "TM1v", "U1", "C"}, "meaning": "ids 1 and 3 name shop.item; id 1 re-announced with qty INT and label VARCHAR(300)"})
}

// ---- C17: injection -------------------------------------------------------------

// InjInput is the replay form of an injection execution.
type InjInput struct {
	At     int    `json:"at"`
	Bytes  []byte `json:"bytes"`
	Note   string `json:"note"`
	Insert bool   `json:"insert"`          // insert before packet At instead of replacing it
	BigN   int    `json:"big_n,omitempty"` // > 0: the history is the big-transaction scale history of BigN rows events
	// Raw: Bytes is the whole packet (no event marker in front): an ERR packet of
	// unusual shape; the reader finds it, its failure is what Error() reports
	Raw bool `json:"raw,omitempty"`
	// Child: execute in a child process (packets the reader goroutine decodes itself)
	Child bool `json:"child,omitempty"`
	// Accepted: a buffer the validity gate accepts (a complete header whose
	// length field matches, and nothing or too little behind it): whatever the
	// streamer makes of it, it must not panic and must not deliver a partial transaction
	Accepted bool `json:"accepted,omitempty"`
}

var bigInjHist = map[int]*ref.History{}
var bigInjMu sync.Mutex

func injHistoryOf(in InjInput) *ref.History {
	if in.BigN <= 0 {
		return injHistory()
	}
	bigInjMu.Lock()
	defer bigInjMu.Unlock()
	if h := bigInjHist[in.BigN]; h != nil {
		return h
	}
	h := scaleHistory(ScaleInput{"big-transaction", in.BigN, ref.Cfg{Checksum: ref.ChecksumCRC32, RowsV2: true, TableID6: true, ServerID: 5, ServerVer: "5.7.30-log"}})
	bigInjHist[in.BigN] = h
	return h
}

var injHist *ref.History

func injHistory() *ref.History {
	if injHist == nil {
		g := &Gen{Cfg: ref.Cfg{Checksum: ref.ChecksumCRC32, RowsV2: true, TableID6: true, ServerID: 5, ServerVer: "5.7.30-log"}}
		// empty and rolled-back units: the commit boundary of a unit that delivers
		// nothing (or nothing but a BEGIN) is a resume position like any other
		injHist = g.Build([]string{UTxXID, "txE", UTx2, UDDL, "txEX", UTxSave, UTxRollback, UTxCommit})
	}
	return injHist
}

func init() {
	// one injection in a process of its own: prints the verdict
	chk.Modes["injone"] = func(args []string) {
		var in InjInput
		if len(args) < 1 || json.Unmarshal([]byte(args[0]), &in) != nil {
			fmt.Println("INJONE-BAD-INPUT")
			return
		}
		in.Child = false
		fmt.Println("INJONE-RESULT:" + checkInjection(in))
	}
}

// checkInjectionChild runs checkInjection in a child process of this binary: a
// packet that makes a goroutine of the library panic (the reader: nothing can
// recover there) takes the child down, not the check.
func checkInjectionChild(in InjInput) string {
	b, _ := json.Marshal(in)
	cmd := exec.Command(os.Args[0], "injone", string(b))
	cmd.Env = append(os.Environ(), "VERIF_SUB=")
	out, err := cmd.CombinedOutput()
	text := string(out)
	if i := strings.Index(text, "INJONE-RESULT:"); i >= 0 {
		return strings.TrimSpace(text[i+len("INJONE-RESULT:"):])
	}
	why := "the process died"
	for _, l := range strings.Split(text, "\n") {
		if strings.HasPrefix(l, "panic:") || strings.HasPrefix(l, "fatal error:") {
			why += ": " + l
			break
		}
	}
	frames := []string{}
	for _, l := range strings.Split(text, "\n") {
		if strings.HasPrefix(l, "github.com/Breeze0806/") && len(frames) < 4 {
			if i := strings.LastIndex(l, "("); i > 0 {
				l = l[:i]
			}
			frames = append(frames, strings.TrimPrefix(l, "github.com/Breeze0806/"))
		}
	}
	if len(frames) > 0 {
		why += " [" + strings.Join(frames, " < ") + "]"
	}
	if err == nil {
		why += " (no verdict printed)"
	}
	return "panic outside Stream (a goroutine of the library; nothing can recover it): " + why
}

func checkInjection(in InjInput) string {
	if in.Child {
		return checkInjectionChild(in)
	}
	h := injHistoryOf(in)
	start := ref.Position{File: h.Files[0].Name, Pos: 4}
	served, _ := h.Serve(start.File, 4)
	exp, _ := ref.Expect(served, start)
	kind := "replace"
	if in.Insert {
		kind = "inject"
	}
	plan := simmaster.Plan{At: in.At, Kind: kind, Inject: in.Bytes, Raw: in.Raw, Final: "eof"}
	out := Run(h, Opts{Start: start, ServerID: 3, LockStep: false, Plans: []simmaster.Plan{plan}, Attempts: 2})
	if out.Hung {
		return "HUNG"
	}
	if out.StreamPanic[0] != "" {
		return "panic in Stream: " + firstLine(out.StreamPanic[0])
	}
	if in.Accepted {
		// no claim about what an accepted header-only buffer means: no panic (above
		// and in the second attempt), nothing partial
		if len(out.StreamPanic) > 1 && out.StreamPanic[1] != "" {
			return "panic in the second attempt: " + firstLine(out.StreamPanic[1])
		}
		return ""
	}
	if out.StreamErr[0] == nil && !(in.Raw && len(out.Err1) > 0 && out.Err1[0] != nil) {
		return fmt.Sprintf("a malformed packet (%s) at index %d did not end the stream with an error", in.Note, in.At)
	}
	var before []ref.ExpTx
	for _, e := range exp {
		if e.CommitIndex < in.At {
			before = append(before, e)
		}
	}
	var first []hx.TxSnap
	var all []hx.TxSnap
	for _, d := range out.Deliveries {
		if d.Attempt == 0 {
			first = append(first, d.Snap)
		}
		all = append(all, d.Snap)
	}
	if d := hx.CompareAll(before, first); d != "" {
		return "deliveries before the malformed packet: " + d
	}
	want := start
	if len(before) > 0 {
		want = before[len(before)-1].Next
	}
	d := out.DumpOf(1)
	if d == nil {
		return "the second attempt issued no dump request"
	}
	if d.File != want.File || uint64(d.Pos) != want.Pos {
		return fmt.Sprintf("after the malformed packet the next attempt resumed at %s:%d, the last accepted commit boundary is %s", d.File, d.Pos, want)
	}
	if len(out.StreamPanic) > 1 && out.StreamPanic[1] != "" {
		return "panic in the second attempt: " + firstLine(out.StreamPanic[1])
	}
	if dd := hx.CompareAll(exp, all); dd != "" {
		return "over both attempts: " + dd
	}
	return ""
}

func firstLine(s string) string {
	if i := strings.IndexByte(s, '\n'); i >= 0 {
		return s[:i]
	}
	return s
}

func injKey(why string) string {
	switch {
	case strings.HasPrefix(why, "panic"):
		return "inject:panic"
	case strings.Contains(why, "did not end the stream"):
		return "inject:accepted"
	case strings.Contains(why, "before the malformed"):
		return "inject:partial-delivery"
	case strings.Contains(why, "resumed at"):
		return "inject:resume-position"
	}
	return "inject:other"
}

// RunInjection is the end-to-end half of C17: every event of a history
// truncated at every length and extended by 1, 4, 19 bytes, replacing the
// packet at its index, plus structured garbage at every index.
func RunInjection(r *chk.Run) {
	h := injHistory()
	served, _ := h.Serve(h.Files[0].Name, 4)
	var inputs []InjInput
	for i, e := range served {
		step := 1
		if !r.Thorough() && len(e.Bytes) > 60 {
			step = 3
		}
		for l := 0; l < len(e.Bytes); l += step {
			inputs = append(inputs, InjInput{At: i, Bytes: e.Bytes[:l], Note: fmt.Sprintf("event %d truncated to %d of %d bytes", i, l, len(e.Bytes))})
		}
		// always the boundary truncations
		for _, l := range []int{18, 19, 20, len(e.Bytes) - 1, len(e.Bytes) - 4, len(e.Bytes) - 5} {
			if l >= 0 && l < len(e.Bytes) {
				inputs = append(inputs, InjInput{At: i, Bytes: e.Bytes[:l], Note: fmt.Sprintf("event %d truncated to %d of %d bytes", i, l, len(e.Bytes))})
			}
		}
		for _, x := range []int{1, 4, 19} {
			b := append(append([]byte{}, e.Bytes...), bytes.Repeat([]byte{0x5a}, x)...)
			inputs = append(inputs, InjInput{At: i, Bytes: b, Note: fmt.Sprintf("event %d extended by %d bytes", i, x)})
		}
		for _, g := range [][]byte{{}, {0xff}, bytes.Repeat([]byte{0}, 18), bytes.Repeat([]byte{0xff}, 19), bytes.Repeat([]byte{0}, 19), bytes.Repeat([]byte{0x41}, 40)} {
			inputs = append(inputs, InjInput{At: i, Bytes: g, Note: fmt.Sprintf("garbage of %d bytes", len(g)), Insert: true})
		}
	}
	// ERR packets of unusual shape in place of an event, and buffers the gate
	// accepts although nothing (or too little) follows the header
	cfgI := h.Cfg
	for _, at := range []int{2, 6, 9} {
		if at >= len(served) {
			continue
		}
		for _, raw := range [][]byte{{0xff}, {0xff, 0xd4}, {0xff, 0xd4, 0x04}, {0xff, 0xd4, 0x04, '#'}, {0xff, 0xd4, 0x04, '#', 'H', 'Y', '0'}, {0xff, 0xd4, 0x04, 'x'}} {
			inputs = append(inputs, InjInput{At: at, Bytes: raw, Raw: true, Child: true, Note: fmt.Sprintf("ERR packet of %d bytes", len(raw))})
		}
		// (event types of which the streamer reads the header only: XID, the GTID
		// family, types it does not interpret, types it refuses. The body decoders of
		// QUERY / ROTATE / FORMAT_DESCRIPTION / TABLE_MAP / rows events index into bodies
		// that a consistent header announces but that are not there: they panic on the
		// unchanged tree; C17 claims the gate and the header accessors, see DESIGN 13.14)
		for _, typ := range []byte{ref.EvXID, ref.EvGTID, ref.EvAnonymousGTID, ref.EvPreviousGTIDs, ref.EvStop, ref.EvIntVar, ref.EvRand, ref.EvUserVar, ref.EvRowsQuery, 0, 255} {
			for _, size := range []int{19, 20, 21, 22, 23, 27} {
				b := make([]byte, size)
				b[0], b[1], b[2], b[3] = 0x01, 0x02, 0x03, 0x5f
				b[4] = typ
				b[5] = byte(cfgI.ServerID)
				b[9] = byte(size)
				b[13], b[14] = 0x10, 0x27
				inputs = append(inputs, InjInput{At: at, Bytes: b, Accepted: true, Note: fmt.Sprintf("header-only event of type %d, %d bytes", typ, size)})
			}
		}
	}
	var n int64
	r.Parallel(func(shard, nsh int) {
		for k := shard; k < len(inputs); k += nsh {
			if r.Expired() {
				r.SetExhaustive(false)
				return
			}
			in := inputs[k]
			why := checkInjection(in)
			if why == "HUNG" {
				hungViolation(r, "C17", "injection", in)
			}
			if why != "" {
				in2 := in
				r.Report(chk.Violation{Key: injKey(why), What: fmt.Sprintf("%s at packet %d: %s", in.Note, in.At, why), Kind: "injection", Replay: in2,
					Recheck: func() string { return checkInjection(in2) }})
			}
		}
	})
	// the same inside a transaction of very many events: a malformed packet
	// half way, at the last rows event, at the commit event and right behind it
	bigN := 140000
	if r.Thorough() {
		bigN = 300000
	}
	var bigInputs []InjInput
	{
		bh := injHistoryOf(InjInput{BigN: bigN})
		bs, _ := bh.Serve(bh.Files[0].Name, 4)
		xid := 0
		for i, e := range bs {
			if e.Kind == ref.AXID && e.XID == 2 {
				xid = i
			}
		}
		for _, at := range []int{xid - bigN/2, xid - 1, xid, xid + 1} {
			for _, l := range []int{0, 10, 19, 23} {
				if l < len(bs[at].Bytes) {
					bigInputs = append(bigInputs, InjInput{At: at, Bytes: bs[at].Bytes[:l], BigN: bigN, Note: fmt.Sprintf("event %d (inside / at the end of a transaction of %d rows events) truncated to %d bytes", at, bigN, l)})
				}
			}
			bigInputs = append(bigInputs, InjInput{At: at, Bytes: bytes.Repeat([]byte{0xff}, 19), BigN: bigN, Insert: true, Note: fmt.Sprintf("garbage of 19 bytes in a transaction of %d rows events", bigN)})
		}
	}
	for _, in := range bigInputs {
		if r.Expired() {
			r.SetExhaustive(false)
			break
		}
		in2 := in
		if why := checkInjection(in2); why == "HUNG" {
			hungViolation(r, "checkInjection", "injection", in2)
		} else if why != "" {
			r.Report(chk.Violation{Key: injKey(why), What: fmt.Sprintf("%s at packet %d: %s", in2.Note, in2.At, why), Kind: "injection", Replay: in2,
				Recheck: func() string { return checkInjection(in2) }})
		}
	}
	r.Set("injections_big_transaction", fmt.Sprintf("%d malformed packets inside, at the end of and behind one transaction of %d rows events", len(bigInputs), bigN))
	n = int64(len(inputs) + len(bigInputs))
	r.Eval(n)
	r.States(n)
	r.Transitions(int64(len(inputs))*int64(len(served)) + int64(len(bigInputs))*int64(bigN))
	r.DistinctN(n)
	r.Set("injections", len(inputs))
	r.Set("injection_space", fmt.Sprintf("each of the %d packets of a 4-unit history (CRC32, rows v2) replaced by itself truncated to every shorter length and extended by 1/4/19 bytes; 6 garbage packets inserted before every index; a second clean attempt follows", len(served)))
	r.Sample("injection", map[string]interface{}{"packet": 5, "form": "truncated to 23 of 61 bytes", "expect": "Stream != nil, no partial transaction, next dump at the last accepted boundary"})
}

// ---- C20: end-to-end marshal -----------------------------------------------------

var typeNames = map[byte]string{0: "Decimal", 1: "Tiny", 2: "Short", 3: "Long", 4: "Float", 5: "Double", 6: "Null", 7: "Timestamp",
	8: "LongLong", 9: "Int24", 10: "Date", 11: "Time", 12: "DateTime", 13: "Year", 14: "NewDate", 15: "Varchar", 16: "Bit",
	17: "Timestamp2", 18: "DateTime2", 19: "Time2", 245: "JSON", 246: "NewDecimal", 247: "Enum", 248: "Set", 249: "TinyBlob",
	250: "MediumBlob", 251: "LongBlob", 252: "Blob", 253: "VarString", 254: "String", 255: "Geometry"}

// CheckMarshal serialises a delivered transaction and compares the decoded
// document with its snapshot.
func CheckMarshal(tx *gobinlog.Transaction, snap hx.TxSnap) string {
	var b []byte
	var err error
	if p := chk.Catch(func() { b, err = json.Marshal(tx) }); p != "" {
		return "panic in json.Marshal: " + firstLine(p)
	}
	if err != nil {
		return "json.Marshal failed: " + err.Error()
	}
	if !json.Valid(b) {
		return "output is not valid JSON"
	}
	var doc struct {
		Now struct {
			Filename string
			Offset   int64
		} `json:"nowPosition"`
		Next struct {
			Filename string
			Offset   int64
		} `json:"nextPosition"`
		TS     string                       `json:"timestamp"`
		Events []map[string]json.RawMessage `json:"events"`
	}
	if err := json.Unmarshal(b, &doc); err != nil {
		return "output does not decode: " + err.Error()
	}
	if doc.Now.Filename != snap.NowFile || doc.Now.Offset != snap.NowPos || doc.Next.Filename != snap.NextFile || doc.Next.Offset != snap.NextPos {
		return fmt.Sprintf("positions %+v %+v do not match the transaction", doc.Now, doc.Next)
	}
	if doc.TS != time.Unix(snap.TS, 0).Local().String() {
		return "transaction timestamp " + doc.TS
	}
	if len(doc.Events) != len(snap.Events) {
		return fmt.Sprintf("%d events in JSON, %d in the transaction", len(doc.Events), len(snap.Events))
	}
	for i, e := range snap.Events {
		je := doc.Events[i]
		var name struct{ Db, Table string }
		var typ, ts string
		json.Unmarshal(je["name"], &name)
		json.Unmarshal(je["type"], &typ)
		json.Unmarshal(je["timestamp"], &ts)
		if name.Db != e.DB || name.Table != e.Table {
			return fmt.Sprintf("event %d: name %+v, expected %s.%s", i, name, e.DB, e.Table)
		}
		if typ != e.Kind {
			return fmt.Sprintf("event %d: type %q, expected %q", i, typ, e.Kind)
		}
		if ts != time.Unix(e.TS, 0).Local().String() {
			return fmt.Sprintf("event %d: timestamp %q", i, ts)
		}
		if e.SQL != "" {
			var sql string
			if _, ok := je["sql"]; !ok {
				return fmt.Sprintf("event %d: SQL text missing", i)
			}
			json.Unmarshal(je["sql"], &sql)
			if sql != e.SQL && utf8.ValidString(e.SQL) {
				return fmt.Sprintf("event %d: sql %q, expected %q", i, clip(sql, 60), clip(e.SQL, 60))
			}
			if n := len(e.Values) + len(e.Idents); n > 0 {
				// an event delivered by the stream with SQL text AND row images: the
				// document must not lose the rows
				for _, key := range []string{"rowValues", "rowIdentifies"} {
					if _, ok := je[key]; !ok {
						return fmt.Sprintf("event %d: the delivered event holds %d row images (and the SQL text %q); the document has no %s", i, n, clip(e.SQL, 40), key)
					}
				}
			}
			continue
		}
		for _, part := range []struct {
			key  string
			rows [][]hx.ColSnap
		}{{"rowValues", e.Values}, {"rowIdentifies", e.Idents}} {
			var rows []struct {
				Columns []struct {
					Filed   *string `json:"filed"`
					Type    *string `json:"type"`
					IsEmpty *bool   `json:"isEmpty"`
					Data    *string `json:"data"`
				}
			}
			raw, ok := je[part.key]
			if !ok {
				return fmt.Sprintf("event %d: %s missing", i, part.key)
			}
			if err := json.Unmarshal(raw, &rows); err != nil {
				return fmt.Sprintf("event %d: %s does not decode: %v", i, part.key, err)
			}
			if len(rows) != len(part.rows) {
				return fmt.Sprintf("event %d: %s has %d rows, expected %d", i, part.key, len(rows), len(part.rows))
			}
			for ri, row := range part.rows {
				if len(rows[ri].Columns) != len(row) {
					return fmt.Sprintf("event %d %s row %d: %d columns, expected %d", i, part.key, ri, len(rows[ri].Columns), len(row))
				}
				for ci, c := range row {
					jc := rows[ri].Columns[ci]
					w := fmt.Sprintf("event %d %s row %d col %d", i, part.key, ri, ci)
					if jc.Filed == nil || *jc.Filed != c.Name {
						return w + ": column name lost"
					}
					if jc.Type == nil || *jc.Type != typeNames[c.Type] {
						return fmt.Sprintf("%s: type name %v, expected %q", w, jc.Type, typeNames[c.Type])
					}
					if jc.IsEmpty == nil || *jc.IsEmpty != c.IsEmpty {
						return w + ": absent flag lost"
					}
					if c.Nil {
						if jc.Data != nil {
							return fmt.Sprintf("%s: NULL rendered as %q", w, *jc.Data)
						}
						continue
					}
					if jc.Data == nil {
						return w + ": data rendered as null"
					}
					if utf8.Valid(c.Data) && *jc.Data != string(c.Data) {
						return fmt.Sprintf("%s: data %q, expected %q", w, clip(*jc.Data, 60), clip(string(c.Data), 60))
					}
				}
			}
		}
	}
	return ""
}

// SnapOfExp converts an expected delivery of the reference model into the
// snapshot form, so that serialised JSON can be compared with what the master
// logged (not merely with what the library delivered).
func SnapOfExp(e ref.ExpTx) hx.TxSnap {
	s := hx.TxSnap{NowFile: e.Now.File, NowPos: int64(e.Now.Pos), NextFile: e.Next.File, NextPos: int64(e.Next.Pos), TS: int64(e.TS)}
	rows := func(in [][]ref.ExpCol) [][]hx.ColSnap {
		var out [][]hx.ColSnap
		for _, r := range in {
			var row []hx.ColSnap
			for _, c := range r {
				cs := hx.ColSnap{Name: c.Name, Type: c.Type, IsEmpty: c.Absent, Nil: c.Absent || c.Null}
				if !cs.Nil {
					cs.Data = append([]byte{}, c.Data...)
				}
				row = append(row, cs)
			}
			out = append(out, row)
		}
		return out
	}
	for _, ev := range e.Events {
		es := hx.EvSnap{Kind: ev.Kind, TS: int64(ev.TS)}
		if ev.IsRows {
			es.DB, es.Table = ev.DB, ev.Table
			es.Values, es.Idents = rows(ev.After), rows(ev.Before)
		} else {
			es.QDB, es.SQL = ev.Query.DB, ev.Query.SQL
		}
		s.Events = append(s.Events, es)
	}
	return s
}

// RunMarshal is the end-to-end half of C20: every transaction delivered in a
// slice of C01's space is serialised and decoded back.
func RunMarshal(r *chk.Run) {
	depth := 2
	if r.Thorough() {
		depth = 3
	}
	alpha := []string{UTxXID, UDDL, UTx2, UTxCommit, UAutoRows, UStmtIn, UStmtOut, USet, UTxRollback}
	cfg := ref.Cfg{Checksum: ref.ChecksumCRC32, RowsV2: true, TableID6: true, ServerID: 5, ServerVer: "5.7.30-log"}
	var inputs []HistInput
	Sequences(alpha, depth, func(seq []string) {
		inputs = append(inputs, HistInput{Units: append([]string{}, seq...), Cfg: cfg})
	})
	for kind := 0; kind < 3; kind++ {
		for b := 0; b < 27; b++ {
			for a := 0; a < 27; a++ {
				if kind == 0 && b != 0 || kind == 2 && a != 0 {
					continue
				}
				if (kind == 0 && a == 26) || (kind == 2 && b == 26) || (kind == 1 && a == 26 && b == 26) {
					continue
				}
				if kind == 1 && (a+b)%3 != 0 && !r.Thorough() {
					continue
				}
				p := Pattern{Kind: kind, Before: [3]int{b % 3, b / 3 % 3, b / 9}, After: [3]int{a % 3, a / 3 % 3, a / 9}, Rows2: true}
				inputs = append(inputs, HistInput{Units: []string{"pattern"}, Cfg: cfg, Pattern: &p})
			}
		}
	}
	// string columns with {value, NULL, absent, empty string} and integer
	// columns at their extremes
	for _, tab := range []string{"N", "S"} {
		patternSpace(tab, func(p Pattern) {
			if p.Kind == 1 && (p.Before[0]+p.After[1]+p.After[2])%4 != 0 && !r.Thorough() {
				return
			}
			pp := p
			inputs = append(inputs, HistInput{Units: []string{"pattern", UDDL}, Cfg: cfg, Pattern: &pp})
		})
	}
	if wideReady {
		for v := 1; v <= wideVariants; v++ {
			for kind := 0; kind < 3; kind++ {
				inputs = append(inputs, HistInput{Units: []string{"pattern"}, Cfg: cfg, Pattern: &Pattern{Kind: kind, Wide: v}})
			}
		}
	}
	// statements the library does not classify, inside and between transactions:
	// whatever is delivered must carry the name of its own kind
	for _, in := range UnknownStatementInputs(cfg) {
		if in.Insert.Slot == 2 || in.Insert.Slot == 4 {
			inputs = append(inputs, in)
		}
	}
	// ROWS_QUERY events in front of a statement (the library gives such a stream
	// up; whatever it delivers all the same is serialised like everything else)
	for slot := 0; slot <= 8; slot++ {
		inputs = append(inputs, HistInput{Units: []string{UTxXID, UTx2, UAutoRows}, Cfg: cfg, Insert: &Insert{Unit: "rowsQ", Slot: slot}})
	}
	var ntx int64
	var mu = make(chan struct{}, 1)
	r.Parallel(func(shard, nsh int) {
		local := int64(0)
		for k := shard; k < len(inputs); k += nsh {
			in := inputs[k]
			h := in.build()
			out := Run(h, Opts{Start: ref.Position{File: h.Files[0].Name, Pos: 4}, ServerID: 3, KeepTx: true})
			if out.Hung {
				hungViolation(r, "C20", "history", in)
			}
			why := marshalHistory(in, h, out)
			local += int64(len(out.Deliveries))
			if why != "" {
				in2 := in
				in2.Oracle = "marshal"
				r.Report(chk.Violation{Key: "marshal-e2e:" + firstWord(why), What: fmt.Sprintf("units=%v pattern=%+v: %s", in.Units, in.Pattern, why), Kind: "history", Replay: in2,
					Recheck: func() string {
						h2 := in2.build()
						o2 := Run(h2, Opts{Start: ref.Position{File: h2.Files[0].Name, Pos: 4}, ServerID: 3, KeepTx: true})
						return marshalHistory(in2, h2, o2)
					}})
			}
		}
		mu <- struct{}{}
		ntx += local
		<-mu
	})
	r.Eval(ntx)
	r.States(int64(len(inputs)))
	r.Transitions(ntx)
	r.DistinctN(ntx)
	r.Set("e2e_histories", len(inputs))
	r.Set("e2e_transactions_serialised", ntx)
	r.Sample("e2e", map[string]interface{}{"units": []string{UTx2, UDDL}, "oracle": "json.Marshal(tx) decodes to the same positions, events, names, SQL, per-column name/type/absent/data (NULL -> null, empty -> \"\")"})
}

// marshalHistory serialises every delivery of one execution and compares the
// decoded JSON with the delivered transaction AND with the reference model's
// expectation; documents obtained by calling MarshalJSON directly must stay
// intact while later transactions are serialised.
func marshalHistory(in HistInput, h *ref.History, out *Outcome) string {
	start := ref.Position{File: h.Files[0].Name, Pos: 4}
	served, _ := h.Serve(start.File, 4)
	exp, _ := ref.Expect(served, start)
	type kept struct {
		doc, copy []byte
	}
	var keep []kept
	for i, d := range out.Deliveries {
		if why := CheckMarshal(d.Tx, d.Snap); why != "" {
			return fmt.Sprintf("delivery %d: %s", i, why)
		}
		if i < len(exp) && len(exp) == len(out.Deliveries) {
			if why := CheckMarshal(d.Tx, SnapOfExp(exp[i])); why != "" {
				return fmt.Sprintf("delivery %d against what the master logged: %s", i, why)
			}
		}
		var doc []byte
		var err error
		if p := chk.Catch(func() { doc, err = d.Tx.MarshalJSON() }); p != "" || err != nil {
			return fmt.Sprintf("delivery %d: MarshalJSON failed: %v %s", i, err, firstLine(p))
		}
		keep = append(keep, kept{doc, append([]byte{}, doc...)})
		for j, k := range keep {
			if !bytes.Equal(k.doc, k.copy) {
				return fmt.Sprintf("the document MarshalJSON returned for delivery %d changed when delivery %d was serialised (shared buffer)", j, i)
			}
		}
	}
	return ""
}

func firstWord(s string) string {
	f := strings.Fields(s)
	if len(f) == 0 {
		return "?"
	}
	return strings.Trim(f[0], ":")
}

// ReplayAttribution / ReplayInjection re-execute recorded counterexamples of
// the end-to-end halves of C15 / C17.
func ReplayAttribution(input json.RawMessage) (bool, string) {
	var in AttrInput
	if err := json.Unmarshal(input, &in); err != nil {
		return false, err.Error()
	}
	why := checkAttribution(in)
	return why != "", fmt.Sprintf("script=%v cfg=%s: %s", in.Script, CfgName(in.Cfg), why)
}

func ReplayInjection(input json.RawMessage) (bool, string) {
	var in InjInput
	if err := json.Unmarshal(input, &in); err != nil {
		return false, err.Error()
	}
	why := checkInjection(in)
	return why != "", fmt.Sprintf("%s at packet %d: %s", in.Note, in.At, why)
}

// ReplayMarshal re-executes a history and serialises every delivery.
func ReplayMarshal(input json.RawMessage) (bool, string) {
	var in HistInput
	if err := json.Unmarshal(input, &in); err != nil {
		return false, err.Error()
	}
	h := in.build()
	out := Run(h, Opts{Start: ref.Position{File: h.Files[0].Name, Pos: 4}, ServerID: 3, KeepTx: true})
	for _, d := range out.Deliveries {
		if why := CheckMarshal(d.Tx, d.Snap); why != "" {
			return true, why
		}
	}
	return false, "all deliveries serialise faithfully"
}

// ---- the same Streamer across a master restart (table ids start again) ----------

// RestartInput is the replay form of a restart execution: the tokens before
// "|" are logged in the first binlog file, the connection is lost when that file
// has been served, the master "restarts" (a new file, table ids handed out
// again) and the SAME Streamer object streams on from its stored position.
// After "|" the tokens TMa<i> / TMb<i> announce, for the id of <i>, another
// table: a = shop.refund (same column count as shop.item, other names and
// signedness), b = shop.note (two columns).
type RestartInput struct {
	Script   []string `json:"script"`
	Cfg      ref.Cfg  `json:"cfg"`
	LockStep bool     `json:"lockstep"`
}

func altTable(kind byte, id uint64) *ref.Table {
	if kind == 'a' {
		return &ref.Table{ID: id, DB: "shop", Name: "refund", Flags: 1, Cols: []ref.Column{
			ref.ColInt(ref.TLong, "rid", true), ref.ColVarchar("reason", 40), ref.ColInt(ref.TShort, "cents", false)}}
	}
	return &ref.Table{ID: id, DB: "shop", Name: "note", Flags: 1, Cols: []ref.Column{
		ref.ColInt(ref.TLong, "nid", true), ref.ColVarchar("txt", 40)}}
}

func altRow(t *ref.Table, k int64) ref.Image {
	img := ref.Image{ref.VInt(ref.TLong, 4000000000+k, true), ref.VVarchar(40, []byte(fmt.Sprintf("alt-%d", k)))}
	if len(t.Cols) == 3 {
		img = append(img, ref.VInt(ref.TShort, -k, false))
	}
	return img
}

func buildRestart(in RestartInput) *ref.History {
	g := &Gen{Cfg: in.Cfg}
	f1 := &ref.File{Name: "mysql-bin.000001"}
	f2 := &ref.File{Name: "mysql-bin.000002"}
	cur := f1
	latest := map[int]*ref.Table{}
	k := int64(0)
	for _, tok := range in.Script {
		ts := g.tick()
		k++
		switch {
		case tok == "|":
			cur.Events = append(cur.Events, ref.Rot(ts, f2.Name))
			cur = f2
			latest = map[int]*ref.Table{}
		case tok == "B":
			cur.Events = append(cur.Events, ref.Q(ts, "shop", "BEGIN"))
		case tok == "X":
			cur.Events = append(cur.Events, ref.X(ts, uint64(7000+k)))
		case strings.HasPrefix(tok, "TMa"), strings.HasPrefix(tok, "TMb"):
			id := int(tok[3] - '0')
			t := altTable(tok[2], scriptTable(id, false).ID)
			latest[id] = t
			cur.Events = append(cur.Events, ref.TM(ts, t))
		case strings.HasPrefix(tok, "TM"):
			id := int(tok[2] - '0')
			t := scriptTable(id, false)
			latest[id] = t
			cur.Events = append(cur.Events, ref.TM(ts, t))
		default:
			id := int(tok[1] - '0')
			t := latest[id]
			row := func(k int64) ref.Image {
				if t.Name == "refund" || t.Name == "note" {
					return altRow(t, k)
				}
				return scriptRow(t, k)
			}
			switch tok[0] {
			case 'W':
				cur.Events = append(cur.Events, ref.R(ts, ref.RowWrite, t, ref.RowChange{After: row(k)}))
			case 'U':
				cur.Events = append(cur.Events, ref.R(ts, ref.RowUpdate, t, ref.RowChange{Before: row(k), After: row(k + 500)}))
			case 'D':
				cur.Events = append(cur.Events, ref.R(ts, ref.RowDelete, t, ref.RowChange{Before: row(k)}))
			}
		}
	}
	h := &ref.History{Cfg: in.Cfg, Files: []*ref.File{f1, f2}}
	h.Layout()
	return h
}

func checkRestart(in RestartInput) string {
	h := buildRestart(in)
	start := ref.Position{File: "mysql-bin.000001", Pos: 4}
	served, _ := h.Serve(start.File, 4)
	exp, stop := ref.Expect(served, start)
	if stop != nil {
		return "generator error: " + stop.Why
	}
	rot := -1
	for i, e := range served {
		if e.Kind == ref.ARotate && !e.Artificial {
			rot = i
			break
		}
	}
	if rot < 0 {
		return "generator error: no rotation"
	}
	mapper := hx.NewMapper(scriptTable(1, false), scriptTable(2, false), altTable('a', 0), altTable('b', 0))
	// connection 1 is lost when the first file has been served (before the
	// ROTATE reaches the client); connection 2 serves from the resume position
	out := Run(h, Opts{Start: start, ServerID: 3, LockStep: in.LockStep, Mapper: mapper, Attempts: 2,
		Plans: []simmaster.Plan{{At: rot, Kind: "fin", Final: "eof"}, {At: -1, Final: "eof"}}})
	if out.Hung {
		return "HUNG"
	}
	for a, p := range out.StreamPanic {
		if p != "" {
			return fmt.Sprintf("panic in Stream (attempt %d): %s", a, p)
		}
	}
	if len(out.StreamErr) > 1 && out.StreamErr[1] != nil {
		return "the second Stream call of the same Streamer failed on a well-formed binlog: " + clip(out.StreamErr[1].Error(), 200)
	}
	if d := hx.CompareAll(exp, out.Snaps()); d != "" {
		return "deliveries over both attempts of the same Streamer: " + d
	}
	return ""
}

// RunRestart is shared by C01 and C15: the same Streamer object across a master
// restart after which a table id names another table.
func RunRestart(r *chk.Run) {
	firsts := [][]string{
		{"B", "TM1", "W1", "X"},
		{"B", "TM1", "U1", "X", "B", "TM2", "W2", "X"},
		{"B", "TM1", "TM2", "W1", "D2", "X"},
	}
	seconds := [][]string{
		{"B", "TMa1", "W1", "X"},
		{"B", "TMb1", "W1", "X"},
		{"B", "TMa1", "U1", "X", "B", "TM2", "D2", "X"},
		{"B", "TM2", "W2", "X", "B", "TMb1", "D1", "X"},
		{"B", "TM1", "W1", "X"},
	}
	var n, trans int64
	for _, cfg := range Cfgs() {
		for _, a := range firsts {
			for _, b := range seconds {
				for _, lock := range []bool{true, false} {
					if r.Expired() {
						r.SetExhaustive(false)
						return
					}
					script := append(append(append([]string{}, a...), "|"), b...)
					in := RestartInput{Script: script, Cfg: cfg, LockStep: lock}
					n++
					trans += int64(len(script))
					why := checkRestart(in)
					if why == "HUNG" {
						hungViolation(r, "restart", "restart", in)
					}
					if why != "" {
						r.Report(chk.Violation{Key: "restart:" + attrKey(why), What: fmt.Sprintf("script=%v cfg=%s lockstep=%v: %s", script, CfgName(cfg), lock, why),
							Kind: "restart", Replay: in, Recheck: func() string { return checkRestart(in) }})
					}
				}
			}
		}
	}
	r.Eval(n)
	r.States(n)
	r.Transitions(trans)
	r.DistinctN(n)
	r.Set("restart_histories", n)
	r.Set("restart_space", fmt.Sprintf("%d first-file scripts x %d second-file scripts (the id of shop.item names shop.refund / shop.note after the restart, or the same table again) x %d configurations x lock-step / free pacing; connection lost at the end of the first file, second Stream call on the same Streamer", len(firsts), len(seconds), len(Cfgs())))
}

// ReplayRestart replays a restart execution.
func ReplayRestart(input json.RawMessage) (bool, string) {
	var in RestartInput
	if err := json.Unmarshal(input, &in); err != nil {
		return false, err.Error()
	}
	why := checkRestart(in)
	if why == "" {
		return false, "both attempts deliver exactly the committed transactions, attributed to the tables announced in their own file"
	}
	return true, why
}

// ---- values that share the leading part of their text ---------------------------

// RunSharedText streams transactions whose temporal / decimal values share
// their leading text with the value decoded just before them (same second,
// other fraction: two images of an UPDATE, rows of one event, consecutive
// transactions), in every wire configuration. Oracle: C01's (deliveries equal
// the reference, and are still equal when read again after the stream ended).
func RunSharedText(r *chk.Run) {
	var n int64
	for _, cfg := range Cfgs() {
		for _, v := range []string{"S", "I"} {
			for _, lock := range []bool{true, false} {
				if r.Expired() {
					r.SetExhaustive(false)
					return
				}
				in := HistInput{Units: []string{"sh" + v + "1", "sh" + v + "2", "sh" + v + "3", UTxXID}, Cfg: cfg, LockStep: lock, Oracle: "fidelity"}
				n++
				why, _, _ := checkGrouping(in)
				if why == "HUNG" {
					hungViolation(r, "shared text", "history", in)
				}
				if why != "" {
					r.Report(chk.Violation{Key: "sharedtext:" + classify(why), What: fmt.Sprintf("units=%v cfg=%s lockstep=%v: %s", in.Units, CfgName(cfg), lock, why),
						Kind: "history", Replay: in, Recheck: func() string { w, _, _ := checkGrouping(in); return w }})
				}
			}
		}
	}
	r.Eval(n)
	r.States(n)
	r.DistinctN(n)
	r.Set("shared_text_histories", n)
}

// ReplaySharedText replays a shared-text history (a HistInput).
func ReplaySharedText(input json.RawMessage) (bool, string) { return replayHist("history", input) }

// ---- a schema that changes while the stream runs ----------------------------------

// SchemaInput is the replay form of a schema-change execution: a table is
// written under one table id, an ALTER changes the signedness (variant "sign")
// or the names (variant "name") of its columns, and the table is written again
// under the next table id, in ONE stream. The mapper answers the second lookup
// with the new definition.
type SchemaInput struct {
	Variant string  `json:"variant"`
	Cfg     ref.Cfg `json:"cfg"`
	Kind    int     `json:"kind"` // rows event kind of the second transaction
	// LookupFails: the mapper's second lookup (the table under its new id) fails
	// (the table was dropped and re-created, the mapper's connection is gone): the
	// stream must end with that error, it must not go on with what it knew
	LookupFails bool `json:"lookup_fails,omitempty"`
}

func checkSchema(in SchemaInput) string {
	v1 := &ref.Table{ID: 100, DB: "shop", Name: "gauge", Flags: 1, Cols: []ref.Column{
		ref.ColInt(ref.TLong, "id", false), ref.ColInt(ref.TLong, "v", false), ref.ColInt(ref.TTiny, "w", false), ref.ColInt(ref.TLongLong, "x", true)}}
	if strings.HasPrefix(in.Variant, "fsp") {
		// temporal columns whose precision lives in the table-map metadata only
		v1.Cols = append(v1.Cols, ref.ColFsp(ref.TDateTime2, "created", 3), ref.ColFsp(ref.TTime2, "took", 1), ref.ColFsp(ref.TTimestamp2, "seen", 5))
		if in.Variant == "fsp0" {
			v1.Cols[4].Meta, v1.Cols[5].Meta, v1.Cols[6].Meta = []byte{0}, []byte{0}, []byte{0}
		}
	}
	if in.Variant == "dec" {
		v1.Cols = append(v1.Cols, ref.ColDecimal("amount", 10, 2), ref.ColDecimal("rate", 20, 6))
	}
	if in.Variant == "meta" {
		// columns whose cell layout lives in the table-map metadata: length-prefix
		// width, precision and scale, pack length
		v1.Cols = append(v1.Cols, ref.ColVarchar("note", 60), ref.ColBlob("doc", 1), ref.ColDecimal("amt", 10, 2), ref.ColChar("code", 12), ref.ColBit("bits", 6))
	}
	v2 := &ref.Table{ID: 101, DB: "shop", Name: "gauge", Flags: 1, Cols: append([]ref.Column{}, v1.Cols...)}
	switch in.Variant {
	case "dec":
		// ALTER ... MODIFY amount DECIMAL(10,4): the SAME table id announced again,
		// the same column types, other precision / scale (same cell size for amount)
		v2.ID = v1.ID
		v2.Cols[4], v2.Cols[5] = ref.ColDecimal("amount", 10, 4), ref.ColDecimal("rate", 18, 8)
	case "meta":
		// ALTER ... MODIFY widens the columns: a NEW table id, the same names and
		// the same number of columns, other metadata
		v2.Cols[4], v2.Cols[5], v2.Cols[6], v2.Cols[7], v2.Cols[8] = ref.ColVarchar("note", 300), ref.ColBlob("doc", 2), ref.ColDecimal("amt", 12, 4), ref.ColChar("code", 300), ref.ColBit("bits", 14)
	case "fsp", "fsp0":
		// ALTER ... MODIFY changes only the precisions; the SAME table id is announced again
		v2.ID = v1.ID
		v2.Cols[4], v2.Cols[5], v2.Cols[6] = ref.ColFsp(ref.TDateTime2, "created", 4), ref.ColFsp(ref.TTime2, "took", 2), ref.ColFsp(ref.TTimestamp2, "seen", 6)
		if in.Variant == "fsp0" {
			v2.Cols[4], v2.Cols[5], v2.Cols[6] = ref.ColFsp(ref.TDateTime2, "created", 6), ref.ColFsp(ref.TTime2, "took", 3), ref.ColFsp(ref.TTimestamp2, "seen", 0)
		}
	case "sign":
		v2.Cols[1].Unsigned, v2.Cols[2].Unsigned, v2.Cols[3].Unsigned = true, true, false
	case "name":
		v2.Cols[1].Name, v2.Cols[2].Name = "value", "weight"
	}
	row := func(t *ref.Table, k int64) ref.Image {
		img := rowBase(t, k)
		if in.Variant == "dec" {
			p1, s1, p2, s2 := int(t.Cols[4].Meta[0]), int(t.Cols[4].Meta[1]), int(t.Cols[5].Meta[0]), int(t.Cols[5].Meta[1])
			dec := func(p, s int, digits string) string {
				return digits[:p-s] + "." + digits[p-s:p]
			}
			return append(img, ref.VDecimal(p1, s1, dec(p1, s1, "1234567890")), ref.VDecimal(p2, s2, "-"+dec(p2, s2, "27182818284590452353")))
		}
		if in.Variant == "meta" {
			wide := t.ID == 101
			vmax, blen, p, sc, cmax, bits := 60, 1, 10, 2, 12, 6
			amt := "-12345678.91"
			if wide {
				vmax, blen, p, sc, cmax, bits = 300, 2, 12, 4, 300, 14
				amt = "-12345678.9123"
			}
			return append(img, ref.VVarchar(vmax, []byte(fmt.Sprintf("note %d", k))), ref.VBlob(blen, []byte(fmt.Sprintf("document %d", k))),
				ref.VDecimal(p, sc, amt), ref.VChar(cmax, []byte("AB-12")), ref.VBit(bits, uint64(33+k)))
		}
		if len(t.Cols) > 4 {
			f := func(i int) int { return int(t.Cols[i].Meta[0]) }
			trunc := func(micro, fsp int) int {
				p := 1
				for i := fsp; i < 6; i++ {
					p *= 10
				}
				return micro / p * p
			}
			img = append(img, ref.VDateTimeFsp(f(4), 2012, 6, 21, 15, 45, 17, trunc(765432, f(4))),
				ref.VTime2(f(5), k%2 == 0, 15, 34, 54, trunc(765432, f(5))), ref.VTimestamp2(f(6), 1490106309, trunc(765432, f(6)), time.Local))
		}
		return img
	}
	_ = row
	return checkSchemaWith(in, v1, v2, row)
}

func rowBase(t *ref.Table, k int64) ref.Image {
	{
		// cells with the top bit set: the text depends on the signedness
		return ref.Image{ref.VInt(ref.TLong, k, false),
			ref.Cell{Raw: []byte{0xff, 0xff, 0xff, 0xff}, Text: []byte(map[bool]string{false: "-1", true: "4294967295"}[t.Cols[1].Unsigned])},
			ref.Cell{Raw: []byte{0x80}, Text: []byte(map[bool]string{false: "-128", true: "128"}[t.Cols[2].Unsigned])},
			ref.Cell{Raw: []byte{0, 0, 0, 0, 0, 0, 0, 0x80}, Text: []byte(map[bool]string{false: "-9223372036854775808", true: "9223372036854775808"}[t.Cols[3].Unsigned])}}
	}
}

func checkSchemaWith(in SchemaInput, v1, v2 *ref.Table, row func(t *ref.Table, k int64) ref.Image) string {
	g := &Gen{Cfg: in.Cfg}
	ts := g.tick()
	second := ref.RowChange{After: row(v2, 2)}
	if in.Kind == 1 {
		second = ref.RowChange{Before: row(v2, 2), After: row(v2, 3)}
	} else if in.Kind == 2 {
		second = ref.RowChange{Before: row(v2, 2)}
	}
	evs := []*ref.AEvent{
		ref.Q(ts, "shop", "BEGIN"), ref.TM(ts, v1), ref.R(ts, ref.RowWrite, v1, ref.RowChange{After: row(v1, 1)}), ref.X(ts+1, 801),
		ref.Q(ts+2, "shop", "ALTER TABLE gauge MODIFY v INT UNSIGNED"),
		ref.Q(ts+3, "shop", "BEGIN"), ref.TM(ts+3, v2), ref.R(ts+3, ref.RowKind(in.Kind), v2, second), ref.X(ts+4, 802),
		// ... and once more under the first id's successor
		ref.Q(ts+5, "shop", "BEGIN"), ref.TM(ts+5, v2), ref.R(ts+5, ref.RowWrite, v2, ref.RowChange{After: row(v2, 4)}), ref.X(ts+6, 803),
	}
	h := &ref.History{Cfg: in.Cfg, Files: []*ref.File{{Name: "mysql-bin.000001", Events: evs}}}
	h.Layout()
	start := ref.Position{File: "mysql-bin.000001", Pos: 4}
	served, _ := h.Serve(start.File, 4)
	exp, stop := ref.Expect(served, start)
	if stop != nil {
		return "generator error: " + stop.Why
	}
	mapper := hx.NewMapper(v1)
	mapper.Versions = map[string][]*ref.Table{"shop.gauge": {v1, v2}}
	if in.LookupFails {
		mapper.FailAt = 1
	}
	out := Run(h, Opts{Start: start, ServerID: 3, LockStep: true, Mapper: mapper})
	if out.Hung {
		return "HUNG"
	}
	if out.StreamPanic[0] != "" {
		return "panic in Stream: " + out.StreamPanic[0]
	}
	if in.LookupFails {
		if v2.ID == v1.ID {
			return "" // the same id announced again: no second lookup
		}
		if len(mapper.Calls) < 2 {
			return fmt.Sprintf("the table was announced under a new id but the mapper was asked %d time(s): a lookup that would have failed was never made", len(mapper.Calls))
		}
		if out.StreamErr[0] == nil {
			return "the lookup of the table under its new id failed but Stream returned nil"
		}
		second := len(served)
		for i, e := range served {
			if e.Kind == ref.ATableMap && e.Table == v2 {
				second = i
				break
			}
		}
		var before []ref.ExpTx
		for _, e := range exp {
			if e.CommitIndex < second {
				before = append(before, e)
			}
		}
		if d := hx.CompareAll(before, out.Snaps()); d != "" {
			return "deliveries before the failed lookup: " + d
		}
		return ""
	}
	if out.StreamErr[0] != nil {
		return "Stream failed on a well-formed binlog: " + clip(out.StreamErr[0].Error(), 200)
	}
	return hx.CompareAll(exp, out.Snaps())
}

// RunSchemaChange is shared by C10 (signedness comes from the mapper's answer
// for the table id in force) and C15.
func RunSchemaChange(r *chk.Run) { runSchemaChange(r, false) }

// RunSchemaLookupFails is the native half of C06: the lookup of a table that
// comes back under a new id fails.
func RunSchemaLookupFails(r *chk.Run) {
	runSchemaChange(r, true)
	r.Rule("native half (one schedule per execution): a table is announced, changed, altered and announced again under a new id; the mapper's second lookup fails; oracle: the mapper is asked again, Stream returns the failure, nothing of the second statement is delivered")
	r.SetExhaustive(true)
}

func runSchemaChange(r *chk.Run, lookupFails bool) {
	var n int64
	for _, cfg := range Cfgs() {
		for _, v := range []string{"sign", "name", "fsp", "fsp0", "meta", "dec"} {
			for kind := 0; kind < 3; kind++ {
				in := SchemaInput{Variant: v, Cfg: cfg, Kind: kind, LookupFails: lookupFails}
				n++
				why := checkSchema(in)
				if why == "HUNG" {
					hungViolation(r, "schema change", "schema", in)
				}
				if why != "" {
					r.Report(chk.Violation{Key: "schema-change:" + v, What: fmt.Sprintf("variant=%s kind=%d cfg=%s: %s", v, kind, CfgName(cfg), why),
						Kind: "schema", Replay: in, Recheck: func() string { return checkSchema(in) }})
				}
			}
		}
	}
	r.Eval(n)
	r.DistinctN(n)
	r.Set("schema_change_histories", n)
}

// ReplaySchema replays a schema-change execution.
func ReplaySchema(input json.RawMessage) (bool, string) {
	var in SchemaInput
	if err := json.Unmarshal(input, &in); err != nil {
		return false, err.Error()
	}
	why := checkSchema(in)
	if why == "" {
		return false, "rows under the new table id carry the names and signedness of the new definition"
	}
	return true, why
}

// ---- C10: every numeric cell shape through Rows() and the streamer ----------------

// NumInput is the replay form of a numeric-shapes execution.
type NumInput struct {
	Group int     `json:"group"` // 0 BIT(1..32), 1 BIT(33..64), 2 the other numeric shapes
	Cfg   ref.Cfg `json:"cfg"`
	Kind  int     `json:"kind"`
	Rows  int     `json:"rows"`
}

func numTable(group int) (*ref.Table, func(r int) ref.Image) {
	t := &ref.Table{ID: 88, DB: "shop", Name: fmt.Sprintf("numbers%d", group), Flags: 1}
	var gens []func(r int) ref.Cell
	add := func(c ref.Column, f func(r int) ref.Cell) { t.Cols = append(t.Cols, c); gens = append(gens, f) }
	switch group {
	case 0, 1:
		for w := 1 + 32*group; w <= 32+32*group; w++ {
			w := w
			add(ref.ColBit(fmt.Sprintf("b%d", w), w), func(r int) ref.Cell {
				v := uint64(0xa5c3f00f9696e187) >> uint(64-w)
				if r%2 == 1 {
					v = ^v & (^uint64(0) >> uint(64-w))
				}
				return ref.VBit(w, v)
			})
		}
	default:
		for _, u := range []bool{false, true} {
			u := u
			for _, ty := range []byte{ref.TTiny, ref.TShort, ref.TInt24, ref.TLong, ref.TLongLong} {
				ty := ty
				add(ref.ColInt(ty, fmt.Sprintf("i%d_%v", ty, u), u), func(r int) ref.Cell {
					if u {
						bits := map[byte]uint{ref.TTiny: 8, ref.TShort: 16, ref.TInt24: 24, ref.TLong: 32, ref.TLongLong: 64}[ty]
						v := ^uint64(0) >> (64 - bits)
						if r%2 == 1 {
							v = 1 << (bits - 1)
						}
						if ty == ref.TLongLong {
							return ref.VUint64(v)
						}
						return ref.VInt(ty, int64(v), true)
					}
					return ref.VInt(ty, int64(-1-r), false)
				})
			}
		}
		add(ref.ColFloat("f"), func(r int) ref.Cell { return ref.VFloat(float32(r) + 0.5) })
		add(ref.ColDouble("d"), func(r int) ref.Cell { return ref.VDouble(-1e15 + float64(r)) })
		add(ref.ColPlain(ref.TYear, "y"), func(r int) ref.Cell { return ref.VYear(1901 + (r%2)*254) })
		add(ref.ColEnum("e1", 1), func(r int) ref.Cell { return ref.VEnum(1, uint16(255-r)) })
		add(ref.ColEnum("e2", 2), func(r int) ref.Cell { return ref.VEnum(2, uint16(65535-r)) })
		for n := 1; n <= 8; n++ {
			n := n
			add(ref.ColSet(fmt.Sprintf("s%d", n), n), func(r int) ref.Cell { return ref.VSet(n, (^uint64(0)>>uint(64-8*n))-uint64(r)) })
		}
	}
	return t, func(r int) ref.Image {
		img := make(ref.Image, len(gens))
		for i, f := range gens {
			img[i] = f(r)
		}
		return img
	}
}

func checkNum(in NumInput) string {
	t, row := numTable(in.Group)
	g := &Gen{Cfg: in.Cfg}
	ts := g.tick()
	var rows []ref.RowChange
	for r := 0; r < in.Rows; r++ {
		rc := ref.RowChange{}
		if in.Kind != 0 {
			rc.Before = row(2 * r)
		}
		if in.Kind != 2 {
			rc.After = row(2*r + 1)
		}
		rows = append(rows, rc)
	}
	evs := []*ref.AEvent{ref.Q(ts, "shop", "BEGIN"), ref.TM(ts, t), ref.R(ts, ref.RowKind(in.Kind), t, rows...), ref.X(ts+1, 811)}
	h := &ref.History{Cfg: in.Cfg, Files: []*ref.File{{Name: "mysql-bin.000001", Events: evs}}}
	h.Layout()
	start := ref.Position{File: "mysql-bin.000001", Pos: 4}
	served, _ := h.Serve(start.File, 4)
	exp, stop := ref.Expect(served, start)
	if stop != nil {
		return "generator error: " + stop.Why
	}
	out := Run(h, Opts{Start: start, ServerID: 3, LockStep: false})
	if out.Hung {
		return "HUNG"
	}
	if out.StreamPanic[0] != "" {
		return "panic in Stream: " + firstLine(out.StreamPanic[0])
	}
	if out.StreamErr[0] != nil {
		return "Stream failed on a well-formed binlog: " + clip(out.StreamErr[0].Error(), 200)
	}
	return hx.CompareAll(exp, out.Snaps())
}

// RunNumericShapes streams rows events of 1..3 rows over tables that hold every
// BIT width 1..64 and every other numeric cell shape of C10, in every wire
// configuration (the cut between rows is made by the per-type length rule: a
// value decoder alone cannot show a wrong cut).
func RunNumericShapes(r *chk.Run) {
	var n int64
	for _, cfg := range Cfgs() {
		for group := 0; group < 3; group++ {
			for kind := 0; kind < 3; kind++ {
				for rows := 1; rows <= 3; rows++ {
					in := NumInput{Group: group, Cfg: cfg, Kind: kind, Rows: rows}
					n++
					why := checkNum(in)
					if why == "HUNG" {
						hungViolation(r, "numeric shapes", "numshapes", in)
					}
					if why != "" {
						r.Report(chk.Violation{Key: fmt.Sprintf("rows:numeric-group%d", group), What: fmt.Sprintf("group=%d kind=%d rows=%d cfg=%s: %s", group, kind, rows, CfgName(cfg), why),
							Kind: "numshapes", Replay: in, Recheck: func() string { return checkNum(in) }})
					}
				}
			}
		}
	}
	r.Eval(n)
	r.States(n)
	r.DistinctN(n)
	r.Set("numeric_shape_histories", n)
}

// ReplayNum replays a numeric-shapes execution.
func ReplayNum(input json.RawMessage) (bool, string) {
	var in NumInput
	if err := json.Unmarshal(input, &in); err != nil {
		return false, err.Error()
	}
	why := checkNum(in)
	if why == "" {
		return false, "every row of the event is delivered with the values written"
	}
	return true, why
}

// ---- table ids at the edges of their 4- and 6-byte fields -------------------------

// IDInput is the replay form of a table-id execution.
type IDInput struct {
	ID  uint64  `json:"id"`
	Cfg ref.Cfg `json:"cfg"`
	// Other, when > 0: a second table with this id is changed by the same
	// statements (announced before or behind the first, see OtherFirst): a hot
	// table keeps a small id for weeks while re-opened tables push the counter up
	Other      uint64 `json:"other,omitempty"`
	OtherFirst bool   `json:"other_first,omitempty"`
}

func checkTableID(in IDInput) string {
	t := TA(in.ID)
	g := &Gen{Cfg: in.Cfg}
	ts := g.tick()
	if in.Other > 0 {
		u := TB(in.Other)
		a, b := ref.TM(ts, t), ref.TM(ts, u)
		if in.OtherFirst {
			a, b = b, a
		}
		evs := []*ref.AEvent{ref.Q(ts, "shop", "BEGIN"), a, b,
			ref.R(ts, ref.RowWrite, t, ref.RowChange{After: rowA(1, "a", 1)}), ref.R(ts, ref.RowWrite, u, ref.RowChange{After: rowB(7, "n")}), ref.X(ts+1, 821),
			ref.Q(ts+2, "shop", "BEGIN"), a, b,
			ref.R(ts+2, ref.RowDelete, u, ref.RowChange{Before: rowB(7, "n")}), ref.R(ts+2, ref.RowUpdate, t, ref.RowChange{Before: rowA(1, "a", 1), After: rowA(1, "A", 2)}), ref.X(ts+3, 822)}
		h := &ref.History{Cfg: in.Cfg, Files: []*ref.File{{Name: "mysql-bin.000001", Events: evs}}}
		h.Layout()
		return checkCustom(h, nil)
	}
	evs := []*ref.AEvent{ref.Q(ts, "shop", "BEGIN"), ref.TM(ts, t),
		ref.R(ts, ref.RowWrite, t, ref.RowChange{After: rowA(1, "a", 1)}, ref.RowChange{After: rowA(2, "b", 2)}, ref.RowChange{After: rowA(3, "c", 3)}),
		ref.TM(ts, t), ref.R(ts, ref.RowDelete, t, ref.RowChange{Before: rowA(1, "a", 1)}), ref.X(ts+1, 821),
		ref.Q(ts+2, "shop", "BEGIN"), ref.TM(ts+2, t), ref.R(ts+2, ref.RowUpdate, t, ref.RowChange{Before: rowA(2, "b", 2), After: rowA(2, "B", 65535)}), ref.X(ts+3, 822)}
	h := &ref.History{Cfg: in.Cfg, Files: []*ref.File{{Name: "mysql-bin.000001", Events: evs}}}
	h.Layout()
	start := ref.Position{File: "mysql-bin.000001", Pos: 4}
	served, _ := h.Serve(start.File, 4)
	exp, stop := ref.Expect(served, start)
	if stop != nil {
		return "generator error: " + stop.Why
	}
	out := Run(h, Opts{Start: start, ServerID: 3, LockStep: false})
	if out.Hung {
		return "HUNG"
	}
	if out.StreamPanic[0] != "" {
		return "panic in Stream: " + firstLine(out.StreamPanic[0])
	}
	if out.StreamErr[0] != nil {
		return "Stream failed on a well-formed binlog: " + clip(out.StreamErr[0].Error(), 200)
	}
	return hx.CompareAll(exp, out.Snaps())
}

// RunTableIDs streams rows of a table whose id lies at the edges of the id
// field (the server's "dummy" id is all ones in the WHOLE field; ids whose low
// 24 bits are all ones are ordinary tables), in every wire configuration.
func RunTableIDs(r *chk.Run) {
	var n int64
	for _, cfg := range Cfgs() {
		ids := []uint64{0, 1, 0xfffffe, 0xffffff, 0x1000000, 0x1ffffff, 0xa3ffffff, 0xfffffffe}
		if cfg.TableID6 {
			ids = append(ids, 0xffffffff, 0x102030ffffff, 0xfffffffffffe)
		}
		// two tables in one statement whose ids lie far apart
		var ins []IDInput
		for _, id := range ids {
			ins = append(ins, IDInput{ID: id, Cfg: cfg})
		}
		for _, far := range []uint64{108 + 1<<16, 108 + 1<<24 - 1, 108 + 1<<24, 108 + 1<<24 + 1, 3000000000, 0xfffffffe} {
			for _, first := range []bool{false, true} {
				ins = append(ins, IDInput{ID: 108, Other: far, OtherFirst: first, Cfg: cfg})
			}
		}
		if cfg.TableID6 {
			ins = append(ins, IDInput{ID: 108, Other: 1 << 40, Cfg: cfg}, IDInput{ID: 1<<47 + 5, Other: 7, OtherFirst: true, Cfg: cfg})
		}
		for _, in := range ins {
			in := in
			id := in.ID
			n++
			why := checkTableID(in)
			if why == "HUNG" {
				hungViolation(r, "table ids", "tableid", in)
			}
			if why != "" {
				r.Report(chk.Violation{Key: "table-id-edge", What: fmt.Sprintf("table id %#x (second table of the statements: id %#x, announced first: %v) cfg=%s: %s", id, in.Other, in.OtherFirst, CfgName(cfg), why),
					Kind: "tableid", Replay: in, Recheck: func() string { return checkTableID(in) }})
			}
		}
	}
	r.Eval(n)
	r.DistinctN(n)
	r.Set("table_id_edge_histories", n)
}

// ReplayTableID replays a table-id execution.
func ReplayTableID(input json.RawMessage) (bool, string) {
	var in IDInput
	if err := json.Unmarshal(input, &in); err != nil {
		return false, err.Error()
	}
	why := checkTableID(in)
	if why == "" {
		return false, "every rows event of the table is delivered"
	}
	return true, why
}

// ---- a table id announced again with another column count --------------------------

// CountInput is the replay form of a column-count execution.
type CountInput struct {
	Grow bool    `json:"grow"`
	Kind int     `json:"kind"`
	Cfg  ref.Cfg `json:"cfg"`
}

// checkCountChange: a table id is announced (the mapper's table fits), written,
// and announced AGAIN for the same name with one column less / more. The
// mapper's table no longer fits the table map: the rows that follow must be
// rejected with an error (no panic, no delivery with shifted names).
func checkCountChange(in CountInput) string {
	t3 := TA(100)
	t2 := &ref.Table{ID: 100, DB: t3.DB, Name: t3.Name, Flags: 1, Cols: append([]ref.Column{}, t3.Cols[:2]...)}
	first, second := t3, t2
	if in.Grow {
		first, second = t2, t3
	}
	img := func(t *ref.Table, k int64) ref.Image {
		r := rowA(k, fmt.Sprintf("l%d", k), 7)
		return r[:len(t.Cols)]
	}
	g := &Gen{Cfg: in.Cfg}
	ts := g.tick()
	rc := ref.RowChange{After: img(second, 2)}
	if in.Kind == 1 {
		rc = ref.RowChange{Before: img(second, 2), After: img(second, 3)}
	} else if in.Kind == 2 {
		rc = ref.RowChange{Before: img(second, 2)}
	}
	evs := []*ref.AEvent{
		ref.Q(ts, "shop", "BEGIN"), ref.TM(ts, first), ref.R(ts, ref.RowWrite, first, ref.RowChange{After: img(first, 1)}), ref.X(ts+1, 831),
		ref.Q(ts+2, "shop", "BEGIN"), ref.TM(ts+2, second), ref.R(ts+2, ref.RowKind(in.Kind), second, rc), ref.X(ts+3, 832)}
	h := &ref.History{Cfg: in.Cfg, Files: []*ref.File{{Name: "mysql-bin.000001", Events: evs}}}
	h.Layout()
	start := ref.Position{File: "mysql-bin.000001", Pos: 4}
	served, _ := h.Serve(start.File, 4)
	exp, _ := ref.Expect(served, start)
	mapper := hx.NewMapper(first) // the mapper knows the table as it was first announced
	out := Run(h, Opts{Start: start, ServerID: 3, LockStep: true, Mapper: mapper})
	if out.Hung {
		return "HUNG"
	}
	if out.StreamPanic[0] != "" {
		return "panic in Stream: " + firstLine(out.StreamPanic[0])
	}
	if out.StreamErr[0] == nil {
		return fmt.Sprintf("the table map announced again has %d columns, the mapper's table %d, but Stream returned nil (%d deliveries)", len(second.Cols), len(first.Cols), len(out.Deliveries))
	}
	if len(exp) < 1 {
		return "generator error"
	}
	if d := hx.CompareAll(exp[:1], out.Snaps()); d != "" {
		return "deliveries before the rejected rows: " + d
	}
	return ""
}

// RunCountChange is part of the end-to-end half of C15.
func RunCountChange(r *chk.Run) {
	var n int64
	for _, cfg := range Cfgs() {
		for _, grow := range []bool{false, true} {
			for kind := 0; kind < 3; kind++ {
				in := CountInput{Grow: grow, Kind: kind, Cfg: cfg}
				n++
				why := checkCountChange(in)
				if why == "HUNG" {
					hungViolation(r, "column count change", "countchange", in)
				}
				if why != "" {
					r.Report(chk.Violation{Key: "attr:count-change", What: fmt.Sprintf("grow=%v kind=%d cfg=%s: %s", grow, kind, CfgName(cfg), why),
						Kind: "countchange", Replay: in, Recheck: func() string { return checkCountChange(in) }})
				}
			}
		}
	}
	r.Eval(n)
	r.DistinctN(n)
	r.Set("column_count_change_histories", n)
}

// ReplayCountChange replays a column-count execution.
func ReplayCountChange(input json.RawMessage) (bool, string) {
	var in CountInput
	if err := json.Unmarshal(input, &in); err != nil {
		return false, err.Error()
	}
	why := checkCountChange(in)
	if why == "" {
		return false, "the rows behind the re-announcement are rejected with an error"
	}
	return true, why
}

// ---- tables whose names differ in case only -----------------------------------------

// checkCaseTwins: shop.Item (unsigned columns) and shop.item (signed) are two
// tables on a case-sensitive master; each must be looked up under its own name.
func checkCaseTwins(cfg ref.Cfg) string {
	lower := TA(110)
	upper := &ref.Table{ID: 111, DB: "Shop", Name: "Item", Flags: 1, Cols: []ref.Column{
		ref.ColInt(ref.TLong, "Id", true), ref.ColVarchar("Label", 40), ref.ColInt(ref.TShort, "Qty", false)}}
	rowU := func(k int64) ref.Image {
		return ref.Image{ref.VInt(ref.TLong, 4000000000+k, true), ref.VVarchar(40, []byte("U")), ref.VInt(ref.TShort, -k, false)}
	}
	g := &Gen{Cfg: cfg}
	ts := g.tick()
	evs := []*ref.AEvent{
		ref.Q(ts, "shop", "BEGIN"), ref.TM(ts, lower), ref.R(ts, ref.RowWrite, lower, ref.RowChange{After: rowA(1, "l", 65535)}), ref.X(ts+1, 841),
		ref.Q(ts+2, "Shop", "BEGIN"), ref.TM(ts+2, upper), ref.R(ts+2, ref.RowWrite, upper, ref.RowChange{After: rowU(1)}), ref.X(ts+3, 842),
		ref.Q(ts+4, "shop", "BEGIN"), ref.TM(ts+4, upper), ref.TM(ts+4, lower),
		ref.R(ts+4, ref.RowUpdate, upper, ref.RowChange{Before: rowU(1), After: rowU(2)}),
		ref.R(ts+4, ref.RowDelete, lower, ref.RowChange{Before: rowA(1, "l", 65535)}), ref.X(ts+5, 843)}
	h := &ref.History{Cfg: cfg, Files: []*ref.File{{Name: "mysql-bin.000001", Events: evs}}}
	h.Layout()
	start := ref.Position{File: "mysql-bin.000001", Pos: 4}
	served, _ := h.Serve(start.File, 4)
	exp, stop := ref.Expect(served, start)
	if stop != nil {
		return "generator error: " + stop.Why
	}
	out := Run(h, Opts{Start: start, ServerID: 3, LockStep: true, Mapper: hx.NewMapper(lower, upper)})
	if out.Hung {
		return "HUNG"
	}
	if out.StreamPanic[0] != "" {
		return "panic in Stream: " + firstLine(out.StreamPanic[0])
	}
	if out.StreamErr[0] != nil {
		return "Stream failed on a well-formed binlog: " + clip(out.StreamErr[0].Error(), 200)
	}
	return hx.CompareAll(exp, out.Snaps())
}

// RunCaseTwins is part of the end-to-end halves of C10 and C15.
func RunCaseTwins(r *chk.Run) {
	var n int64
	for _, cfg := range Cfgs() {
		cfg := cfg
		n++
		if why := checkCaseTwins(cfg); why == "HUNG" {
			hungViolation(r, "checkCaseTwins", "casetwins", cfg)
		} else if why != "" {
			r.Report(chk.Violation{Key: "attr:case-twins", What: fmt.Sprintf("tables Shop.Item / shop.item cfg=%s: %s", CfgName(cfg), why),
				Kind: "casetwins", Replay: cfg, Recheck: func() string { return checkCaseTwins(cfg) }})
		}
	}
	r.Eval(n)
	r.DistinctN(n)
	r.Set("case_twin_histories", n)
}

// ReplayCaseTwins replays a case-twins execution.
func ReplayCaseTwins(input json.RawMessage) (bool, string) {
	var cfg ref.Cfg
	if err := json.Unmarshal(input, &cfg); err != nil {
		return false, err.Error()
	}
	why := checkCaseTwins(cfg)
	if why == "" {
		return false, "each table is looked up and labelled under its own name"
	}
	return true, why
}

// ---- event headers whose first bytes take every value, through the reader -----------

// checkHeaderBytes streams 768 transactions whose event timestamps have every
// low byte 0..255 combined with second bytes 0x00, 0x01 and 0xef (the first
// bytes of the packet payload behind the OK byte): what the reader hands to the
// parser must be the event as sent, whatever its leading bytes look like.
func checkHeaderBytes(cfg ref.Cfg) string {
	t := TA(70)
	var evs []*ref.AEvent
	k := int64(0)
	for _, b1 := range []uint32{0x00, 0x01, 0xef} {
		for b0 := uint32(0); b0 < 256; b0++ {
			ts := uint32(0x5f210000) | b1<<8 | b0
			k++
			evs = append(evs, ref.Q(ts, "shop", "BEGIN"), ref.TM(ts, t),
				ref.R(ts, ref.RowWrite, t, ref.RowChange{After: rowA(k, "h", k%60000)}), ref.X(ts, uint64(k)))
		}
	}
	h := &ref.History{Cfg: cfg, Files: []*ref.File{{Name: "mysql-bin.000001", Events: evs}}}
	h.Layout()
	start := ref.Position{File: "mysql-bin.000001", Pos: 4}
	served, _ := h.Serve(start.File, 4)
	exp, stop := ref.Expect(served, start)
	if stop != nil {
		return "generator error: " + stop.Why
	}
	out := Run(h, Opts{Start: start, ServerID: 3, LockStep: false})
	if out.Hung {
		return "HUNG"
	}
	if out.StreamPanic[0] != "" {
		return "panic in Stream: " + firstLine(out.StreamPanic[0])
	}
	if out.StreamErr[0] != nil {
		return fmt.Sprintf("Stream failed on a well-formed binlog after %d of %d transactions: %s", len(out.Deliveries), len(exp), clip(out.StreamErr[0].Error(), 200))
	}
	return hx.CompareAll(exp, out.Snaps())
}

// RunHeaderBytes is an end-to-end half of C16 and C17.
func RunHeaderBytes(r *chk.Run) {
	var n int64
	for _, cfg := range Cfgs() {
		cfg := cfg
		n++
		if why := checkHeaderBytes(cfg); why == "HUNG" {
			hungViolation(r, "checkHeaderBytes", "headerbytes", cfg)
		} else if why != "" {
			r.Report(chk.Violation{Key: "reader:leading-header-bytes", What: fmt.Sprintf("768 transactions with every leading timestamp byte, cfg=%s: %s", CfgName(cfg), why),
				Kind: "headerbytes", Replay: cfg, Recheck: func() string { return checkHeaderBytes(cfg) }})
		}
	}
	// a second format description (log rotation) under every wire configuration
	for _, cfg := range Cfgs() {
		for _, units := range [][]string{{UTxXID, URotate, UDDL, UTxXID}, {UDDL, URotate, URotate, UTxCommit}} {
			in := HistInput{Units: units, Cfg: cfg, LockStep: true, Oracle: "fidelity"}
			n++
			if why, _, _ := checkGrouping(in); why == "HUNG" {
				hungViolation(r, "checkGrouping", "history", in)
			} else if why != "" {
				r.Report(chk.Violation{Key: "stream:second-format-description", What: fmt.Sprintf("units=%v cfg=%s: %s", units, CfgName(cfg), why),
					Kind: "history", Replay: in, Recheck: func() string { w, _, _ := checkGrouping(in); return w }})
			}
		}
	}
	r.Eval(n)
	r.DistinctN(n)
	r.Set("header_byte_histories", n)
}

// ReplayHeaderBytes replays a header-bytes execution.
func ReplayHeaderBytes(input json.RawMessage) (bool, string) {
	var cfg ref.Cfg
	if err := json.Unmarshal(input, &cfg); err != nil {
		return false, err.Error()
	}
	why := checkHeaderBytes(cfg)
	if why == "" {
		return false, "all 768 transactions are delivered as sent"
	}
	return true, why
}

// ---- every event type code the library does not interpret ---------------------------

// UnkInput is the replay form of an unknown-type execution.
type UnkInput struct {
	Type   byte    `json:"type"`
	Inside bool    `json:"inside"` // inside a transaction (between its rows events) / between two transactions
	Cfg    ref.Cfg `json:"cfg"`
}

// interpreted lists the type codes the streamer has a case for.
var interpretedTypes = map[byte]bool{ref.EvFormatDesc: true, ref.EvQuery: true, ref.EvRotate: true, ref.EvXID: true, ref.EvIntVar: true,
	ref.EvRand: true, ref.EvPreviousGTIDs: true, ref.EvRowsQuery: true, ref.EvTableMap: true, ref.EvWriteRowsV1: true, ref.EvUpdateRowsV1: true,
	ref.EvDeleteRowsV1: true, ref.EvWriteRowsV2: true, ref.EvUpdateRowsV2: true, ref.EvDeleteRowsV2: true, ref.EvGTID: true}

func checkUnknownType(in UnkInput) string {
	ta := TA(70)
	g := &Gen{Cfg: in.Cfg}
	ts := g.tick()
	unk := &ref.AEvent{Kind: ref.AUnknown, TS: ts, TypeCode: in.Type, Body: []byte{1, 2, 3, 4, 5, 6, 7, 8, 9, 10, 11, 12, 13, 14, 15, 16, 17, 18, 19, 20, 21, 22, 23, 24, 25, 26}}
	var evs []*ref.AEvent
	if in.Inside {
		evs = []*ref.AEvent{ref.Q(ts, "shop", "BEGIN"), ref.TM(ts, ta), ref.R(ts, ref.RowWrite, ta, ref.RowChange{After: rowA(1, "a", 1)}), unk,
			ref.TM(ts, ta), ref.R(ts, ref.RowWrite, ta, ref.RowChange{After: rowA(2, "b", 2)}), ref.X(ts+1, 851),
			ref.Q(ts+2, "shop", "DROP TABLE gone")}
	} else {
		evs = []*ref.AEvent{ref.Q(ts, "shop", "BEGIN"), ref.TM(ts, ta), ref.R(ts, ref.RowWrite, ta, ref.RowChange{After: rowA(1, "a", 1)}), ref.X(ts+1, 851), unk,
			ref.Q(ts+2, "shop", "BEGIN"), ref.TM(ts+2, ta), ref.R(ts+2, ref.RowDelete, ta, ref.RowChange{Before: rowA(1, "a", 1)}), ref.Q(ts+3, "shop", "COMMIT")}
	}
	h := &ref.History{Cfg: in.Cfg, Files: []*ref.File{{Name: "mysql-bin.000001", Events: evs}}}
	h.Layout()
	start := ref.Position{File: "mysql-bin.000001", Pos: 4}
	served, _ := h.Serve(start.File, 4)
	exp, stop := ref.Expect(served, start)
	if stop != nil {
		return "generator error: " + stop.Why
	}
	out := Run(h, Opts{Start: start, ServerID: 3, LockStep: true})
	if out.Hung {
		return "HUNG"
	}
	if out.StreamPanic[0] != "" {
		return "panic in Stream: " + firstLine(out.StreamPanic[0])
	}
	if out.StreamErr[0] != nil {
		return "Stream failed on a well-formed binlog: " + clip(out.StreamErr[0].Error(), 200)
	}
	if d := hx.CompareAll(exp, out.Snaps()); d != "" {
		return d
	}
	for i, d := range out.Deliveries {
		ci := exp[i].CommitIndex
		if d.Released < ci+1 {
			return fmt.Sprintf("delivery %d happened when the master had released %d packets, before its commit event (packet %d) was sent", i, d.Released, ci)
		}
	}
	return ""
}

// RunUnknownTypes: an event of every type code the streamer does not interpret
// (0..255 without the 16 interpreted ones), placed inside a transaction and
// between two transactions, must not alter the grouping.
func RunUnknownTypes(r *chk.Run) {
	var n int64
	cfgs := []ref.Cfg{
		{Checksum: ref.ChecksumCRC32, RowsV2: true, TableID6: true, ServerID: 5, ServerVer: "5.7.30-log"},
		{Checksum: ref.ChecksumOff, RowsV2: false, TableID6: false, ServerID: 5, ServerVer: "5.5.62"},
	}
	for t := 0; t < 256; t++ {
		if interpretedTypes[byte(t)] {
			continue
		}
		for _, inside := range []bool{true, false} {
			for _, cfg := range cfgs {
				in := UnkInput{Type: byte(t), Inside: inside, Cfg: cfg}
				n++
				why := checkUnknownType(in)
				if why == "HUNG" {
					hungViolation(r, "unknown types", "unktype", in)
				}
				if why != "" {
					r.Report(chk.Violation{Key: "unknown-type-alters-grouping", What: fmt.Sprintf("event type %d inside=%v cfg=%s: %s", t, inside, CfgName(cfg), why),
						Kind: "unktype", Replay: in, Recheck: func() string { return checkUnknownType(in) }})
				}
			}
		}
	}
	r.Eval(n)
	r.DistinctN(n)
	r.Set("unknown_type_histories", n)
}

// ReplayUnknownType replays an unknown-type execution.
func ReplayUnknownType(input json.RawMessage) (bool, string) {
	var in UnkInput
	if err := json.Unmarshal(input, &in); err != nil {
		return false, err.Error()
	}
	why := checkUnknownType(in)
	if why == "" {
		return false, "the event is ignored: grouping and contents as the reference says"
	}
	return true, why
}

// ---- server versions in the format description --------------------------------------

// RunServerVersions streams a history with a rotation (a second format
// description), DDL and both commit forms under format descriptions of many
// server versions; CRC32 only for checksum-aware servers (MySQL >= 5.6.1,
// MariaDB >= 5.3). What the streamer does must not depend on the version text.
func RunServerVersions(r *chk.Run) {
	type sv struct {
		ver string
		crc bool
	}
	list := []sv{{"5.1.73-log", false}, {"5.5.62", false}, {"5.6.0", false}, {"5.5.68-MariaDB", true}, {"5.6.1", true}, {"5.6.10-log", true}, {"5.7.0", true},
		{"5.7.44-log", true}, {"8.0.0", true}, {"8.0.21", true}, {"8.0.36-0ubuntu0.22.04.1", true}, {"8.4.0", true}, {"9.0.1", true},
		{"10.0.13-MariaDB-log", true}, {"10.4.13-MariaDB-log", true}, {"10.11.6-MariaDB-1:10.11.6+maria~ubu2204-log", true}, {"11.5.2-MariaDB", true}}
	var n int64
	for _, v := range list {
		algs := []byte{ref.ChecksumOff}
		if v.crc {
			algs = append(algs, ref.ChecksumCRC32)
		}
		for _, alg := range algs {
			for _, v2 := range []bool{false, true} {
				cfg := ref.Cfg{Checksum: alg, RowsV2: v2, TableID6: v2, ServerID: 5, ServerVer: v.ver}
				for _, units := range [][]string{{UTxXID, URotate, UDDL, UTxCommit}, {UDDL, UTxCommit, URotate, UTxXID, UStmtOut}} {
					in := HistInput{Units: units, Cfg: cfg, LockStep: true, Oracle: "fidelity"}
					n++
					if why, _, _ := checkGrouping(in); why == "HUNG" {
						hungViolation(r, "checkGrouping", "history", in)
					} else if why != "" {
						r.Report(chk.Violation{Key: "server-version", What: fmt.Sprintf("server version %q units=%v cfg=%s: %s", v.ver, units, CfgName(cfg), why),
							Kind: "history", Replay: in, Recheck: func() string { w, _, _ := checkGrouping(in); return w }})
					}
					// ... and the resume position after a lost connection (second attempt)
					in2 := in
					in2.CutAt = 7
					n++
					if why, _, _ := checkGrouping(in2); why == "HUNG" {
						hungViolation(r, "checkGrouping", "history", in2)
					} else if why != "" {
						r.Report(chk.Violation{Key: "server-version:resume", What: fmt.Sprintf("server version %q units=%v cfg=%s: %s", v.ver, units, CfgName(cfg), why),
							Kind: "history", Replay: in2, Recheck: func() string { w, _, _ := checkGrouping(in2); return w }})
					}
				}
			}
		}
	}
	r.Eval(n)
	r.DistinctN(n)
	r.Set("server_version_histories", n)
}

// ---- scale: long streams, big transactions, wide tables, big events ------------------

// checkCustom streams a laid-out history from its start, compares every delivery
// with the reference and reads every kept transaction again after the stream.
func checkCustom(h *ref.History, mapper *hx.Mapper) string {
	start := ref.Position{File: h.Files[0].Name, Pos: 4}
	served, err := h.Serve(start.File, 4)
	if err != nil {
		return "generator error: " + err.Error()
	}
	exp, stop := ref.Expect(served, start)
	if stop != nil {
		return "generator error: " + stop.Why
	}
	out := Run(h, Opts{Start: start, ServerID: 3, LockStep: false, KeepTx: true, Mapper: mapper})
	if out.Hung {
		return "HUNG"
	}
	if out.StreamPanic[0] != "" {
		return "panic in Stream: " + firstLine(out.StreamPanic[0])
	}
	if out.StreamErr[0] != nil {
		return fmt.Sprintf("Stream failed on a well-formed binlog after %d of %d transactions: %s", len(out.Deliveries), len(exp), clip(out.StreamErr[0].Error(), 200))
	}
	if d := hx.CompareAll(exp, out.Snaps()); d != "" {
		return d
	}
	for i, d := range out.Deliveries {
		if diff := d.Snap.Diff(hx.Snapshot(d.Tx)); diff != "" {
			return fmt.Sprintf("delivery %d changed after it was delivered (re-read after the stream ended): %s", i, clip(diff, 300))
		}
	}
	return ""
}

// ScaleInput is the replay form of a scale execution.
type ScaleInput struct {
	Case string  `json:"case"`
	N    int     `json:"n"`
	Cfg  ref.Cfg `json:"cfg"`
}

func scaleHistory(in ScaleInput) *ref.History {
	g := &Gen{Cfg: in.Cfg}
	var evs []*ref.AEvent
	switch in.Case {
	case "table-ids", "table-ids+1":
		// N statements on two and three tables in turn, every table with an id and
		// a name of its own (a bounded or hashed table cache meets a second or
		// third table map at every size: with the shifted twin, which starts with
		// a one-table statement, the k-th new id is a non-first table map of its
		// statement for every k in one of the two histories)
		next := uint64(1000)
		if in.Case == "table-ids+1" {
			ts := g.tick()
			t0 := &ref.Table{ID: next, DB: "tenant_first", Name: "orders", Flags: 1, Cols: []ref.Column{
				ref.ColInt(ref.TLong, "id", false), ref.ColVarchar("label", 40), ref.ColInt(ref.TShort, "qty", true)}}
			next++
			evs = append(evs, ref.Q(ts, t0.DB, "BEGIN"), ref.TM(ts, t0), ref.R(ts, ref.RowWrite, t0, ref.RowChange{After: rowA(7, "o", 7)}), ref.X(ts, 999999))
		}
		for i := 0; i < in.N; i++ {
			ts := g.tick()
			ta := &ref.Table{ID: next, DB: fmt.Sprintf("tenant_%06d", i), Name: "orders", Flags: 1, Cols: []ref.Column{
				ref.ColInt(ref.TLong, "id", false), ref.ColVarchar("label", 40), ref.ColInt(ref.TShort, "qty", true)}}
			tb := &ref.Table{ID: next + 1, DB: fmt.Sprintf("tenant_%06d", i), Name: "orders_audit", Flags: 1, Cols: []ref.Column{
				ref.ColInt(ref.TLongLong, "seq", true), ref.ColBlob("note", 2)}}
			next += 2
			evs = append(evs, ref.Q(ts, ta.DB, "BEGIN"), ref.TM(ts, ta), ref.TM(ts, tb))
			var tc *ref.Table
			if i%2 == 1 {
				tc = &ref.Table{ID: next, DB: fmt.Sprintf("tenant_%06d", i), Name: "orders_stats", Flags: 1, Cols: []ref.Column{
					ref.ColInt(ref.TLong, "id", false), ref.ColVarchar("label", 40), ref.ColInt(ref.TShort, "qty", true)}}
				next++
				evs = append(evs, ref.TM(ts, tc))
			}
			evs = append(evs, ref.R(ts, ref.RowWrite, ta, ref.RowChange{After: rowA(int64(i), "o", int64(i%60000))}),
				ref.R(ts, ref.RowWrite, tb, ref.RowChange{After: rowB(uint64(i), "a")}))
			if tc != nil {
				evs = append(evs, ref.R(ts, ref.RowUpdate, tc, ref.RowChange{Before: rowA(int64(i), "s", 1), After: rowA(int64(i), "s", 2)}))
			}
			evs = append(evs, ref.X(ts, uint64(i+1)))
		}
	case "big-transaction":
		// one transaction of N rows events between two small ones
		ta := TA(70)
		ts := g.tick()
		evs = append(evs, ref.Q(ts, "shop", "BEGIN"), ref.TM(ts, ta), ref.R(ts, ref.RowWrite, ta, ref.RowChange{After: rowA(1, "first", 1)}), ref.X(ts, 1))
		evs = append(evs, ref.Q(ts, "shop", "BEGIN"), ref.TM(ts, ta))
		for i := 0; i < in.N; i++ {
			evs = append(evs, ref.R(ts, ref.RowWrite, ta, ref.RowChange{After: rowA(int64(i), "bulk", int64(i%60000))}))
		}
		evs = append(evs, ref.X(ts+1, 2))
		evs = append(evs, ref.Q(ts+2, "shop", "BEGIN"), ref.TM(ts+2, ta), ref.R(ts+2, ref.RowDelete, ta, ref.RowChange{Before: rowA(1, "first", 1)}), ref.X(ts+2, 3))
	case "kept-cells":
		// N transactions of 100 rows of numeric cells on one table id, all kept by
		// the handler (a per-table block of decoded cells that is recycled shows here)
		t, row := numTable(2)
		for i := 0; i < in.N; i++ {
			ts := g.tick()
			var rows []ref.RowChange
			for r := 0; r < 100; r++ {
				rows = append(rows, ref.RowChange{After: row((i*13 + r) % 120)})
			}
			evs = append(evs, ref.Q(ts, "shop", "BEGIN"), ref.TM(ts, t), ref.R(ts, ref.RowWrite, t, rows...), ref.X(ts, uint64(i+1)))
		}
	case "many-rows":
		// one rows event of n rows for every n around the capacities a row list
		// grown by append passes through (up to N), in each of the three kinds and
		// once with two such events in one statement (lists of before and after
		// images that share storage, or a per-event block that is pre-sized,
		// show from the first size that no longer fits)
		ta := TA(70)
		xid := uint64(1)
		for _, n := range rowCounts(in.N) {
			n := n
			ts0 := g.tick()
			mk := func(kind ref.RowKind, salt int) *ref.AEvent {
				var rows []ref.RowChange
				for r := 0; r < n; r++ {
					id := int64(n*100000 + salt*50000 + r)
					switch kind {
					case ref.RowWrite:
						rows = append(rows, ref.RowChange{After: rowA(id, fmt.Sprintf("w%d", r), int64(r%60000))})
					case ref.RowUpdate:
						rows = append(rows, ref.RowChange{Before: rowA(id, fmt.Sprintf("b%d", r), int64(r%60000)), After: rowA(id+7, fmt.Sprintf("a%d", r), int64((r+1)%60000))})
					default:
						rows = append(rows, ref.RowChange{Before: rowA(id, fmt.Sprintf("d%d", r), int64(r%60000))})
					}
				}
				return ref.R(ts0, kind, ta, rows...)
			}
			for _, kind := range []ref.RowKind{ref.RowWrite, ref.RowUpdate, ref.RowDelete} {
				ts := g.tick()
				evs = append(evs, ref.Q(ts, "shop", "BEGIN"), ref.TM(ts, ta), mk(kind, 0), ref.X(ts, xid))
				xid++
			}
			ts := g.tick()
			evs = append(evs, ref.Q(ts, "shop", "BEGIN"), ref.TM(ts, ta), mk(ref.RowUpdate, 1), mk(ref.RowUpdate, 2), ref.X(ts, xid))
			xid++
		}
	case "wide-table":
		// a table of N columns: every integer width, odd columns unsigned, values
		// with the top bit set; VARCHAR columns so that the metadata block grows
		t := &ref.Table{ID: 77, DB: "shop", Name: fmt.Sprintf("wide%d", in.N), Flags: 1}
		img := ref.Image{}
		types := []byte{ref.TTiny, ref.TShort, ref.TInt24, ref.TLong, ref.TLongLong}
		bits := []uint{8, 16, 24, 32, 64}
		for c := 0; c < in.N; c++ {
			if c%3 == 2 {
				t.Cols = append(t.Cols, ref.ColVarchar(fmt.Sprintf("v%d", c), 300))
				img = append(img, ref.VVarchar(300, []byte(fmt.Sprintf("text-%d", c))))
				continue
			}
			k := c % len(types)
			uns := c%2 == 1
			t.Cols = append(t.Cols, ref.ColInt(types[k], fmt.Sprintf("i%d", c), uns))
			if uns {
				v := ^uint64(0) >> (64 - bits[k])
				if types[k] == ref.TLongLong {
					img = append(img, ref.VUint64(v))
				} else {
					img = append(img, ref.VInt(types[k], int64(v), true))
				}
			} else {
				img = append(img, ref.VInt(types[k], -1, false))
			}
		}
		ts := g.tick()
		evs = append(evs, ref.Q(ts, "shop", "BEGIN"), ref.TM(ts, t), ref.R(ts, ref.RowWrite, t, ref.RowChange{After: img}, ref.RowChange{After: img}),
			ref.TM(ts, t), ref.R(ts, ref.RowUpdate, t, ref.RowChange{Before: img, After: img}), ref.TM(ts, t), ref.R(ts, ref.RowDelete, t, ref.RowChange{Before: img}), ref.X(ts, 1))
	case "cap-transactions":
		// one BEGIN .. XID transaction for every capacity c a slice grown by append
		// passes through (up to N), holding exactly c-1, c and c+1 events in turn,
		// each followed by a small transaction (a list that is full exactly when
		// the transaction ends, recycled or trimmed, shows in what the handler kept)
		ta := TA(70)
		xid := uint64(1)
		for _, c := range appendCaps(in.N) {
			if c < 64 {
				continue
			}
			for _, k := range []int{c - 1, c, c + 1} {
				ts := g.tick()
				evs = append(evs, ref.Q(ts, "shop", "BEGIN"), ref.TM(ts, ta))
				for i := 0; i < k; i++ {
					evs = append(evs, ref.R(ts, ref.RowWrite, ta, ref.RowChange{After: rowA(int64(k*100000+i), "cap", int64(i%60000))}))
				}
				evs = append(evs, ref.X(ts, xid))
				xid++
				ts = g.tick()
				evs = append(evs, ref.Q(ts, "shop", "BEGIN"), ref.TM(ts, ta), ref.R(ts, ref.RowDelete, ta, ref.RowChange{Before: rowA(int64(k), "small", 1)}), ref.X(ts, xid))
				xid++
			}
		}
	case "packet-sizes":
		// rows events whose PACKETS have exactly the sizes of packetSizes() (2^k-1,
		// 2^k, 2^k+1; the sizes around which the driver changes its buffering,
		// ascending and once more after a larger one), each followed by small packets
		t := &ref.Table{ID: 78, DB: "shop", Name: "docs", Flags: 1, Cols: []ref.Column{ref.ColInt(ref.TLong, "id", false), ref.ColVarchar("title", 300), ref.ColBlob("body", 4)}}
		for i, size := range packetSizes() {
			ts := g.tick()
			evs = append(evs, ref.TM(ts, t), sizedRows(in.Cfg, ts, t, i, size), ref.Q(ts, "shop", fmt.Sprintf("CREATE TABLE t%d (a int)", i)))
		}
	case "big-events":
		// rows events of N bytes (beyond the driver's 4096-byte read buffer, below
		// and above the 256 KiB it keeps), each followed by small packets while
		// the values are still held
		t := &ref.Table{ID: 78, DB: "shop", Name: "docs", Flags: 1, Cols: []ref.Column{ref.ColInt(ref.TLong, "id", false), ref.ColVarchar("title", 300), ref.ColBlob("body", 4)}}
		count := 6
		if in.N >= 1<<20 {
			count = 2
		}
		for i := 0; i < count; i++ {
			ts := g.tick()
			body := bytes.Repeat([]byte{byte('a' + i)}, in.N)
			evs = append(evs, ref.TM(ts, t), ref.R(ts, ref.RowWrite, t, ref.RowChange{After: ref.Image{ref.VInt(ref.TLong, int64(i), false),
				ref.VVarchar(300, []byte(fmt.Sprintf("document number %d", i))), ref.VBlob(4, body)}}),
				ref.Q(ts, "shop", fmt.Sprintf("CREATE TABLE t%d (a int)", i)))
		}
	}
	h := &ref.History{Cfg: in.Cfg, Files: []*ref.File{{Name: "mysql-bin.000001", Events: evs}}}
	h.Layout()
	return h
}

func checkScale(in ScaleInput) string {
	h := scaleHistory(in)
	return checkCustom(h, hx.NewMapper(TablesOf(h)...))
}

// RunScale streams histories that are large in one dimension each.
func RunScale(r *chk.Run, only ...string) {
	cfgA := ref.Cfg{Checksum: ref.ChecksumCRC32, RowsV2: true, TableID6: true, ServerID: 5, ServerVer: "5.7.30-log"}
	cfgB := ref.Cfg{Checksum: ref.ChecksumOff, RowsV2: false, TableID6: false, ServerID: 5, ServerVer: "5.5.62"}
	ids, bulk := 40000, 140000 // (2^17 + 8928 rows events)
	if r.Thorough() {
		ids, bulk = 200000, 300000
	}
	cases := []ScaleInput{
		{"table-ids", ids, cfgA}, {"table-ids+1", ids, cfgA}, {"table-ids", 3000, cfgB},
		{"big-transaction", bulk, cfgA}, {"big-transaction", 5000, cfgB},
		{"kept-cells", 80, cfgA}, {"kept-cells", 20, cfgB}, {"many-rows", 1100, cfgA}, {"many-rows", 40, cfgB},
		{"wide-table", 70, cfgA}, {"wide-table", 130, cfgA}, {"wide-table", 300, cfgA}, {"wide-table", 300, cfgB}, {"wide-table", 1000, cfgA},
		{"cap-transactions", 3000, cfgA}, {"packet-sizes", 0, cfgA},
		{"big-events", 6000, cfgA}, {"big-events", 6000, cfgB}, {"big-events", 70000, cfgA}, {"big-events", 300000, cfgA},
		// events / values of 2^24-1, 2^24 and more bytes: the MySQL packet is split, the driver re-assembles it
		{"big-events", 1<<24 - 21, cfgA}, {"big-events", 1 << 24, cfgA}, {"big-events", 1<<24 + 5, cfgB},
	}
	var n int64
	var ran []string
	for _, in := range cases {
		if r.Expired() {
			r.SetExhaustive(false)
			return
		}
		if len(only) > 0 {
			keep := false
			for _, o := range only {
				keep = keep || strings.HasPrefix(in.Case, o)
			}
			if !keep {
				continue
			}
		}
		in := in
		n++
		ran = append(ran, fmt.Sprintf("%s n=%d %s", in.Case, in.N, CfgName(in.Cfg)))
		if why := checkScale(in); why == "HUNG" {
			hungViolation(r, "checkScale", "scale", in)
		} else if why != "" {
			r.Report(chk.Violation{Key: "scale:" + in.Case, What: fmt.Sprintf("%s n=%d cfg=%s: %s", in.Case, in.N, CfgName(in.Cfg), why),
				Kind: "scale", Replay: in, Recheck: func() string { return checkScale(in) }})
		}
	}
	r.Eval(n)
	r.DistinctN(n)
	r.Set("scale_histories", ran)
}

// rowCounts lists c-1, c, c+1 for every capacity c a slice grown by append
// passes through up to max, the small counts 1..12, and 20, 21 (twice ten).
func rowCounts(max int) []int {
	seen := map[int]bool{}
	var out []int
	add := func(n int) {
		if n >= 1 && n <= max+1 && !seen[n] {
			seen[n] = true
			out = append(out, n)
		}
	}
	for n := 1; n <= 12; n++ {
		add(n)
	}
	for _, n := range []int{19, 20, 21, 99, 100, 101, 1000} {
		add(n)
	}
	for _, c := range appendCaps(max) {
		add(c - 1)
		add(c)
		add(c + 1)
	}
	sort.Ints(out)
	return out
}

// ReplayScale replays a scale execution.
func ReplayScale(input json.RawMessage) (bool, string) {
	var in ScaleInput
	if err := json.Unmarshal(input, &in); err != nil {
		return false, err.Error()
	}
	why := checkScale(in)
	if why == "" {
		return false, "every transaction is delivered as the master logged it and stays so"
	}
	return true, why
}

// ---- the master's settings change between files and between connections ----------

// RunChecksumChange streams histories whose files were written under different
// settings (SET GLOBAL binlog_checksum rotates the log; an upgrade changes the
// event formats), whole, with the connection lost in front of every packet
// and a second Stream call on the same Streamer, and resumed by a fresh
// Streamer at every label. The ROTATE that opens a dump is written under the
// master's current setting, which need not be the one of the file it names.
func RunChecksumChange(r *chk.Run) {
	crc := ref.Cfg{Checksum: ref.ChecksumCRC32, RowsV2: true, TableID6: true, ServerID: 5, ServerVer: "5.7.30-log"}
	off := ref.Cfg{Checksum: ref.ChecksumOff, RowsV2: true, TableID6: true, ServerID: 5, ServerVer: "5.7.30-log"}
	old := ref.Cfg{Checksum: ref.ChecksumOff, RowsV2: false, TableID6: false, ServerID: 5, ServerVer: "5.5.62"}
	cfgs := []ref.Cfg{crc, off, old}
	scripts := [][]string{
		{UTxXID, URotate, UTxXID},
		{UTxXID, UTxCommit, URotate, UAutoRows, UTx2},
		{UDDL, URotate, UTx2, URotate, UTxXID},
	}
	hr := newHistRunner(r, "", func(in HistInput) (string, int, int) {
		if in.Oracle == "resume" {
			return checkResume(in), 1, 1
		}
		return checkGrouping(in)
	})
	n := 0
	for _, sc := range scripts {
		files := 1
		for _, u := range sc {
			if u == URotate {
				files++
			}
		}
		total := 1
		for i := 0; i < files; i++ {
			total *= len(cfgs)
		}
		for x := 0; x < total; x++ {
			var fc []ref.Cfg
			same := true
			for i, y := 0, x; i < files; i++ {
				fc = append(fc, cfgs[y%len(cfgs)])
				y /= len(cfgs)
				same = same && fc[i].Checksum == fc[0].Checksum && fc[i].RowsV2 == fc[0].RowsV2
			}
			for gi := -1; gi < 2; gi++ {
				if same && (gi < 0 || cfgs[gi].Checksum == fc[0].Checksum) {
					continue // one setting throughout: the ordinary histories
				}
				in := HistInput{Units: sc, Cfg: fc[0], FileCfgs: fc, LockStep: true}
				if gi >= 0 {
					g := cfgs[gi]
					in.Global = &g
				}
				hr.add(in)
				n++
				in2 := in
				in2.LockStep = false
				hr.add(in2)
				in3 := in
				in3.Oracle = "resume"
				hr.add(in3)
				// the stream is started with an empty file name: the name of the first
				// file is not to be taken from a ROTATE the format of which is not known yet
				in5 := in3
				in5.EmptyStart = true
				hr.add(in5)
				for k := 2; k <= 22; k++ {
					in4 := in
					in4.CutAt = k + 1
					hr.add(in4)
				}
			}
		}
	}
	hr.finish()
	r.Set("settings_change_histories", fmt.Sprintf("%d (3 scripts of 2..3 files x every assignment of {CRC32 / no checksum / 5.5 formats} to the files x the master's current setting {the file's, CRC32, none}); each whole (lock-step and free), resumed by a fresh Streamer at every label, and with the connection lost in front of each of the first 22 packets followed by a second Stream call on the same Streamer", n))
}

// ---- two streams in one process ------------------------------------------------------

// NestInput: two Streamers exist side by side (both created and positioned
// before anything streams, the same server id, masters that use the same table
// ids and table names for different definitions and may differ in every wire
// setting). The outer one streams; inside its K-th handler call or its K-th
// call into the table mapper (user code: anything may happen there) the inner
// one streams its whole history. Afterwards both stream once more from where
// they stand. Whatever the library keeps outside the Streamer (package-level
// caches, scratch buffers, pools, the last format seen, a registry of server
// ids or positions) is handed from one to the other here.
type NestInput struct {
	Outer ref.Cfg `json:"outer"`
	Inner ref.Cfg `json:"inner"`
	Swap  bool    `json:"swap"`  // the roles of the two histories exchanged
	Where string  `json:"where"` // "handler" | "mapper"
	K     int     `json:"k"`
}

func nestHistories(in NestInput) (*ref.History, *ref.History) {
	mk := func(cfg ref.Cfg, variant bool, ts0 uint32, file string) *ref.History {
		// the same ids and (for the first table) the same name on both masters; the
		// definitions differ in signedness at every integer column (the values have
		// their top bit set), in a length-prefix width and in the column count
		var t, u *ref.Table
		var trow, urow func(k int64) ref.Image
		if !variant {
			t = &ref.Table{ID: 101, DB: "shop", Name: "item", Flags: 1, Cols: []ref.Column{ref.ColInt(ref.TLong, "id", false), ref.ColVarchar("label", 40), ref.ColInt(ref.TShort, "qty", true)}}
			u = &ref.Table{ID: 102, DB: "shop", Name: "audit", Flags: 1, Cols: []ref.Column{ref.ColInt(ref.TLongLong, "seq", true), ref.ColBlob("note", 2)}}
			trow = func(k int64) ref.Image {
				return ref.Image{ref.VInt(ref.TLong, -k, false), ref.VVarchar(40, []byte(fmt.Sprintf("label-%d", k))), ref.VInt(ref.TShort, 40000+k, true)}
			}
			urow = func(k int64) ref.Image {
				return ref.Image{ref.VUint64(1<<63 + uint64(k)), ref.VBlob(2, []byte(fmt.Sprintf("n%d", k)))}
			}
		} else {
			t = &ref.Table{ID: 101, DB: "shop", Name: "item", Flags: 1, Cols: []ref.Column{ref.ColInt(ref.TLong, "id", true), ref.ColVarchar("label", 300), ref.ColInt(ref.TLong, "qty", false)}}
			u = &ref.Table{ID: 102, DB: "shop", Name: "refund", Flags: 1, Cols: []ref.Column{ref.ColInt(ref.TLong, "rid", false), ref.ColVarchar("reason", 40), ref.ColInt(ref.TShort, "cents", true)}}
			trow = func(k int64) ref.Image {
				return ref.Image{ref.VInt(ref.TLong, 4000000000+k, true), ref.VVarchar(300, []byte(fmt.Sprintf("other-%d", k))), ref.VInt(ref.TLong, -k, false)}
			}
			urow = func(k int64) ref.Image {
				return ref.Image{ref.VInt(ref.TLong, -k, false), ref.VVarchar(40, []byte(fmt.Sprintf("alt-%d", k))), ref.VInt(ref.TShort, 50000+k, true)}
			}
		}
		scriptRow := func(_ *ref.Table, k int64) ref.Image { return trow(k) }
		evs := []*ref.AEvent{
			ref.Q(ts0, "shop", "BEGIN"), ref.TM(ts0, t), ref.R(ts0, ref.RowWrite, t, ref.RowChange{After: scriptRow(t, 1)}, ref.RowChange{After: scriptRow(t, 6)}), ref.X(ts0, 1),
			ref.Q(ts0+1, "shop", "BEGIN"), ref.TM(ts0+1, t), ref.TM(ts0+1, u),
			ref.R(ts0+1, ref.RowUpdate, t, ref.RowChange{Before: scriptRow(t, 1), After: scriptRow(t, 2)}),
			ref.R(ts0+1, ref.RowDelete, u, ref.RowChange{Before: urow(3)}), ref.X(ts0+1, 2),
			ref.Q(ts0+2, "shop", "CREATE TABLE nest (a int)"),
			ref.Q(ts0+3, "shop", "BEGIN"), ref.TM(ts0+3, u), ref.R(ts0+3, ref.RowWrite, u, ref.RowChange{After: urow(4)}),
			ref.TM(ts0+3, t), ref.R(ts0+3, ref.RowWrite, t, ref.RowChange{After: scriptRow(t, 5)}), ref.X(ts0+3, 3),
		}
		h := &ref.History{Cfg: cfg, Files: []*ref.File{{Name: file, Events: evs}}}
		h.Layout()
		return h
	}
	if in.Swap {
		return mk(in.Outer, true, 1700005000, "mysql-bin.000001"), mk(in.Inner, false, 1700000000, "binlog.000042")
	}
	return mk(in.Outer, false, 1700000000, "mysql-bin.000001"), mk(in.Inner, true, 1700005000, "binlog.000042")
}

// nestCallbacks counts the calls into the mapper of a plain run of the outer history.
func nestCallbacks(in NestInput) int {
	outer, _ := nestHistories(in)
	o := Run(outer, Opts{Start: ref.Position{File: outer.Files[0].Name, Pos: 4}, ServerID: 7, LockStep: true})
	return o.Mapper.Callbacks
}

func checkNest(in NestInput) string {
	outer, inner := nestHistories(in)
	startO := ref.Position{File: outer.Files[0].Name, Pos: 4}
	startI := ref.Position{File: inner.Files[0].Name, Pos: 4}
	expOf := func(h *ref.History, start ref.Position) []ref.ExpTx {
		served, _ := h.Serve(start.File, 4)
		exp, _ := ref.Expect(served, start)
		return exp
	}
	expO, expI := expOf(outer, startO), expOf(inner, startI)
	const id = 3000000001
	var ri *Runner
	ran, innerHung := false, false
	nest := func() {
		if ran {
			return
		}
		ran = true
		innerHung = !ri.Attempt()
	}
	mo := hx.NewMapper(TablesOf(outer)...)
	if in.Where == "mapper" {
		mo.Hook = func(k int, what string) {
			if k == in.K {
				nest()
			}
		}
	}
	oo := Opts{Start: startO, ServerID: id, LockStep: true, KeepTx: true, Mapper: mo, HungAfter: 45}
	if in.Where != "mapper" {
		oo.Nest = func(k int) {
			if k == in.K {
				nest()
			}
		}
	}
	ro := Start(outer, oo)
	ri = Start(inner, Opts{Start: startI, ServerID: id, LockStep: true, KeepTx: true, HungAfter: 20})
	defer ro.Close()
	defer ri.Close()
	okO := ro.Attempt()
	where := fmt.Sprintf("inside %s call %d of the outer stream", in.Where, in.K)
	if innerHung || (ran && !okO) {
		return fmt.Sprintf("the inner stream, run %s, did not come to an end within 20 s although its master served everything: a stream must not wait for the user code of another stream", where)
	}
	if !okO {
		return "HUNG"
	}
	check := func(who string, r *Runner, exp []ref.ExpTx, start ref.Position) string {
		o := r.Outcome()
		a := len(o.StreamErr) - 1
		if o.StreamPanic[a] != "" {
			return who + ": panic in Stream: " + firstLine(o.StreamPanic[a])
		}
		if o.StreamErr[a] != nil {
			return who + ": Stream failed on a well-formed binlog: " + clip(o.StreamErr[a].Error(), 200)
		}
		if d := hx.CompareAll(exp, o.Snaps()); d != "" {
			return who + ": " + d
		}
		for i, d := range o.Deliveries {
			if diff := d.Snap.Diff(hx.Snapshot(d.Tx)); diff != "" {
				return fmt.Sprintf("%s: delivery %d changed after it was delivered: %s", who, i, diff)
			}
		}
		want := start
		if a > 0 && len(exp) > 0 {
			want = exp[len(exp)-1].Next
		}
		d := o.DumpOf(a)
		if d == nil {
			return fmt.Sprintf("%s: attempt %d issued no dump request", who, a)
		}
		if d.File != want.File || uint64(d.Pos) != want.Pos {
			return fmt.Sprintf("%s: attempt %d asked for %s:%d, this Streamer stands at %s", who, a, d.File, d.Pos, want)
		}
		if d.ServerID != id {
			return fmt.Sprintf("%s: attempt %d announced server id %d, configured %d", who, a, d.ServerID, uint32(id))
		}
		return ""
	}
	if !ran {
		// the outer stream has fewer calls of that kind: two Streamers side by side,
		// only one of them has streamed so far
		if why := check("the outer stream (a second Streamer exists and has its own position, it has not streamed yet)", ro, expO, startO); why != "" {
			return why
		}
		return ""
	}
	if why := check("the inner stream ("+where+")", ri, expI, startI); why != "" {
		return why
	}
	if why := check("the outer stream (another master was streamed "+where+")", ro, expO, startO); why != "" {
		return why
	}
	// both once more, from where they stand: nothing is left to deliver
	if !ro.Attempt() || !ri.Attempt() {
		return "HUNG"
	}
	if why := check("the outer stream, second call", ro, expO, startO); why != "" {
		return why
	}
	if why := check("the inner stream, second call", ri, expI, startI); why != "" {
		return why
	}
	return ""
}

// RunTwoStreamsFirst runs the two-stream executions BEFORE anything in this
// process streams in parallel and ends the run at once when they find
// something: state that the library keeps outside the Streamer makes the
// parallel phases (many Streamers at a time, by design) non-deterministic or
// kills the process (the run-time aborts on concurrent map writes), whereas
// the nested executions show the same defect deterministically.
func RunTwoStreamsFirst(r *chk.Run) {
	RunNested(r)
	if r.Violated() {
		r.SetExhaustive(false)
		r.Finish()
	}
}

// RunNested is shared by C01, C05 (scale half), C15 and C16.
func RunNested(r *chk.Run) {
	var n int64
	cfgs := Cfgs()
	stop := false
	run := func(in NestInput) {
		if stop {
			return // one counterexample is enough: a blocked pair costs 20 s per execution
		}
		n++
		why := checkNest(in)
		if why != "" && why != "HUNG" {
			stop = true
			key := "two-streams"
			if strings.Contains(why, "did not come to an end") {
				key = "two-streams:blocked"
			}
			r.Report(chk.Violation{Key: key, What: fmt.Sprintf("outer=%s inner=%s swap=%v: %s", CfgName(in.Outer), CfgName(in.Inner), in.Swap, why),
				Kind: "nest", Replay: in, Recheck: func() string { return checkNest(in) }})
		}
	}
	for _, a := range cfgs {
		for _, b := range cfgs {
			for _, swap := range []bool{false, true} {
				for k := 0; k < 2; k++ {
					run(NestInput{Outer: a, Inner: b, Swap: swap, Where: "handler", K: k})
				}
			}
		}
	}
	// inside every call into the mapper: four pairs of configurations
	four := []ref.Cfg{cfgs[0], cfgs[len(cfgs)-1]}
	calls := 0
	for _, a := range four {
		for _, b := range four {
			for _, swap := range []bool{false, true} {
				nc := nestCallbacks(NestInput{Outer: a, Inner: b, Swap: swap})
				if nc > calls {
					calls = nc
				}
				for k := 0; k < nc; k++ {
					if r.Expired() {
						r.SetExhaustive(false)
						return
					}
					run(NestInput{Outer: a, Inner: b, Swap: swap, Where: "mapper", K: k})
				}
			}
		}
	}
	r.Eval(n)
	r.DistinctN(n)
	r.Set("two_stream_executions", fmt.Sprintf("%d: two Streamers side by side with the same server id (masters with the same table ids and names, other definitions); the inner one streams its whole history inside handler call 0 / 1 of the outer one (every pair of the %d wire configurations, both role assignments) or inside each of the up to %d calls of the outer stream into its table mapper (4 pairs); then both stream once more from where they stand; oracle: deliveries, kept values, dump requests (position, server id) of both", n, len(cfgs), calls))
}

// ReplayNest replays a two-stream execution.
func ReplayNest(input json.RawMessage) (bool, string) {
	var in NestInput
	if err := json.Unmarshal(input, &in); err != nil {
		return false, err.Error()
	}
	why := checkNest(in)
	if why == "" {
		return false, "both streams deliver what their masters logged and ask for their own positions"
	}
	return true, why
}

// ---- the envelope of query events: session settings must not change anything ----------

// RunQueryEnvelope is shared by C02 and C16: every query event of a history
// carries one more status variable (every single bit of flags2 and of
// sql_mode, every other variable a server writes) or one more header flag
// bit; grouping, database, SQL text and character sets must stay what they are.
func RunQueryEnvelope(r *chk.Run) {
	type env struct {
		name  string
		vars  []ref.StatusVar
		flags uint16
	}
	var envs []env
	for b := 0; b < 32; b++ {
		envs = append(envs, env{fmt.Sprintf("flags2 bit %d", b), []ref.StatusVar{ref.VarFlags2(1 << uint(b))}, 0})
	}
	envs = append(envs, env{"flags2 all ones", []ref.StatusVar{ref.VarFlags2(0xffffffff)}, 0}, env{"flags2 zero", []ref.StatusVar{ref.VarFlags2(0)}, 0})
	for b := 0; b < 34; b++ {
		envs = append(envs, env{fmt.Sprintf("sql_mode bit %d", b), []ref.StatusVar{ref.VarSQLMode(1 << uint(b))}, 0})
	}
	for _, v := range []struct {
		n string
		v ref.StatusVar
	}{{"catalog", ref.VarCatalogNZ([]byte("std"))}, {"auto_increment", ref.VarAutoIncrement(2, 1)}, {"time_zone", ref.VarTimeZone([]byte("+08:00"))},
		{"lc_time_names", ref.VarLCTimeNames(5)}, {"charset_database", ref.VarCharsetDatabase(45)}, {"table_map_for_update", ref.VarTableMapForUpdate(3)},
		{"master_data_written", ref.VarMasterDataWritten(77)}, {"invoker", ref.VarInvoker([]byte("root"), []byte("localhost"))},
		{"updated_db_names", ref.VarUpdatedDBNames([][]byte{[]byte("shop"), []byte("audit")}, false)}, {"updated_db_names overflow", ref.VarUpdatedDBNames(nil, true)},
		{"microseconds", ref.VarMicroseconds(999999)}, {"explicit_defaults_for_timestamp", ref.VarExplicitDefaultsForTimestamp(1)},
		{"ddl_logged_with_xid", ref.VarDDLLoggedWithXid(12345)}, {"default_collation_for_utf8mb4", ref.VarDefaultCollationForUTF8MB4(255)},
		{"sql_require_primary_key", ref.VarSQLRequirePrimaryKey(1)}, {"default_table_encryption", ref.VarDefaultTableEncryption(1)}} {
		envs = append(envs, env{v.n, []ref.StatusVar{v.v}, 0})
	}
	for _, f := range []uint16{0x4, 0x8, 0x10, 0x100, 0x200, 0xc, 0x31c} {
		envs = append(envs, env{fmt.Sprintf("header flags %#x", f), nil, f})
	}
	type env2 struct {
		name     string
		ev, rows uint16
		stamps   []uint32
	}
	var envs2 []env2
	for b := 0; b < 16; b++ {
		if b == 5 {
			continue // LOG_EVENT_ARTIFICIAL_F marks events the master makes up: not a flag of logged events
		}
		envs2 = append(envs2, env2{name: fmt.Sprintf("header flag bit %d on every event", b), ev: 1 << uint(b)})
	}
	for _, f := range []uint16{2, 4, 8, 14, 0x8000} {
		envs2 = append(envs2, env2{name: fmt.Sprintf("rows flags |= %#x", f), rows: f})
	}
	envs2 = append(envs2, env2{name: "timestamps at the edges of the 32-bit field", stamps: []uint32{0, 1, 1<<31 - 1, 1 << 31, 1<<32 - 1, 86399, 86400}})
	cfgA := ref.Cfg{Checksum: ref.ChecksumCRC32, RowsV2: true, TableID6: true, ServerID: 5, ServerVer: "5.7.30-log"}
	cfgB := ref.Cfg{Checksum: ref.ChecksumOff, RowsV2: false, TableID6: false, ServerID: 5, ServerVer: "5.5.62"}
	hists := [][]string{{UDDL, UTxXID, UAutoRows, UDDL, USet, UTxCommit, UDDL}, {USet, UStmtOut, UTxDDL, UDDL, UDDL, UTxRollback, UStmtOut}}
	hr := newHistRunner(r, "", func(in HistInput) (string, int, int) { return checkGrouping(in) })
	n := 0
	for _, e := range envs {
		for hi, units := range hists {
			cfg := cfgA
			if (n+hi)%2 == 1 {
				cfg = cfgB
			}
			hr.add(HistInput{Units: units, Cfg: cfg, LockStep: true, QVars: e.vars, QFlags: e.flags})
			n++
		}
	}
	for _, e := range envs2 {
		for hi, units := range append(hists, []string{UTxXID, UHeartbeat, UTx2, URotate, UGTID, UTxCommit, UUnknownEv, UAutoRows}) {
			cfg := cfgA
			if (n+hi)%2 == 1 {
				cfg = cfgB
			}
			hr.add(HistInput{Units: units, Cfg: cfg, LockStep: true, EvFlags: e.ev, RowFlags: e.rows, Stamps: e.stamps})
			n++
		}
	}
	hr.finish()
	r.Set("event_envelope_histories", fmt.Sprintf("%d: 3 histories x (each header flag bit but ARTIFICIAL on every logged event; rows-event flag bits; header timestamps 0, 1, 2^31-1, 2^31, 2^32-1, 86399, 86400)", 3*len(envs2)))
	r.Set("query_envelope_histories", fmt.Sprintf("%d: 2 histories of statements in every role (BEGIN / COMMIT / DDL / SET / DML text / inside and outside transactions) x %d session settings on every query event (each bit of flags2 and sql_mode, 16 other status variables, 7 header flag values)", n, len(envs)))
}

// ---- partial row images (binlog_row_image=MINIMAL / NOBLOB) ------------------------------

// PartialInput is one execution of the partial-image history.
type PartialInput struct {
	Cfg  ref.Cfg `json:"cfg"`
	Wipe bool    `json:"wipe"` // the handler completes / overwrites what it got (hx.Wipe); otherwise it keeps everything
	// DSN: parameters appended to the data source name of the Streamer (what an
	// application's database/sql DSN carries: loc, parseTime, charset, ...)
	DSN string `json:"dsn,omitempty"`
}

func partialHistory(cfg ref.Cfg) *ref.History {
	t := &ref.Table{ID: 108, DB: "shop", Name: "orders", Flags: 1, Cols: []ref.Column{
		ref.ColInt(ref.TLong, "id", false), ref.ColVarchar("name", 40), ref.ColInt(ref.TShort, "qty", true),
		ref.ColFsp(ref.TTimestamp2, "updated_at", 3), ref.ColDecimal("amt", 10, 2), ref.ColDecimal("price", 20, 6),
		ref.ColFsp(ref.TDateTime2, "created", 6), ref.ColFsp(ref.TTime2, "took", 2), ref.ColJSON("doc", 4), ref.ColBlob("note", 2),
		// CHAR(100) utf8mb4: 400 bytes, the length bits folded into the real-type byte of the metadata
		ref.ColChar("code", 400), ref.ColEnum("state", 1), ref.ColSet("tags", 2)}}
	A := ref.Cell{Absent: true}
	full := func(k int64) ref.Image {
		return ref.Image{ref.VInt(ref.TLong, k, false), ref.VVarchar(40, []byte(fmt.Sprintf("name-%d", k))), ref.VInt(ref.TShort, 40000+k, true),
			ref.VTimestamp2(3, 1490106309+uint32(k), 765000, time.Local), ref.VDecimal(10, 2, fmt.Sprintf("-1234567%d.91", k%10)), ref.VDecimal(20, 6, fmt.Sprintf("2718281828459%d.452353", k%10)),
			ref.VDateTimeFsp(6, 2017, 3, 21, 14, 25, 9, 765432), ref.VTime2(2, false, 12, 34, 56, 780000), {Raw: []byte{0, 0, 0, 0}, Text: []byte("'null'")}, ref.VBlob(2, []byte(fmt.Sprintf("note-%d", k))),
			ref.VChar(400, []byte(fmt.Sprintf("CODE-%d", k))), ref.VEnum(1, uint16(1+k%3)), ref.VSet(2, uint64(1+k%7))}
	}
	pick := func(img ref.Image, cols ...int) ref.Image {
		out := make(ref.Image, len(img))
		for i := range out {
			out[i] = A
		}
		for _, c := range cols {
			out[c] = img[c]
		}
		return out
	}
	ts := uint32(1700000000)
	evs := []*ref.AEvent{
		// key-only before image, the changed columns in the after image; two rows, then one more event
		ref.Q(ts, "shop", "BEGIN"), ref.TM(ts, t),
		ref.R(ts, ref.RowUpdate, t, ref.RowChange{Before: pick(full(1), 0), After: pick(full(11), 1, 3)}, ref.RowChange{Before: pick(full(2), 0), After: pick(full(12), 1, 3)}),
		ref.R(ts, ref.RowUpdate, t, ref.RowChange{Before: pick(full(3), 0), After: pick(full(13), 1, 3)}),
		ref.X(ts, 1),
		// a table without a key: the whole row before, one DECIMAL / one temporal after
		ref.Q(ts+1, "shop", "BEGIN"), ref.TM(ts+1, t),
		ref.R(ts+1, ref.RowUpdate, t, ref.RowChange{Before: full(4), After: pick(full(14), 5)}, ref.RowChange{Before: full(5), After: pick(full(15), 5)}),
		ref.R(ts+1, ref.RowUpdate, t, ref.RowChange{Before: pick(full(6), 0, 4), After: pick(full(16), 6, 7)}),
		ref.R(ts+1, ref.RowUpdate, t, ref.RowChange{Before: pick(full(7), 0), After: pick(full(17), 8, 2)}),
		// the k-th present column is another DECIMAL (of another size) in each image
		ref.R(ts+1, ref.RowUpdate, t, ref.RowChange{Before: pick(full(18), 0, 4), After: pick(full(19), 1, 5)}, ref.RowChange{Before: pick(full(20), 0, 4), After: pick(full(21), 1, 5)}),
		ref.R(ts+1, ref.RowUpdate, t, ref.RowChange{Before: pick(full(22), 5, 9), After: pick(full(23), 4, 9)}),
		ref.X(ts+1, 2),
		// inserts and deletes with partial images, the table announced once for both
		ref.Q(ts+2, "shop", "BEGIN"), ref.TM(ts+2, t),
		ref.R(ts+2, ref.RowWrite, t, ref.RowChange{After: pick(full(8), 0, 3, 7)}, ref.RowChange{After: pick(full(9), 0, 3, 7)}),
		ref.R(ts+2, ref.RowDelete, t, ref.RowChange{Before: pick(full(8), 0)}),
		ref.R(ts+2, ref.RowWrite, t, ref.RowChange{After: pick(full(10), 9, 8, 5, 4)}),
		ref.X(ts+2, 3),
	}
	h := &ref.History{Cfg: cfg, Files: []*ref.File{{Name: "mysql-bin.000001", Events: evs}}}
	h.Layout()
	return h
}

func checkPartial(in PartialInput) string {
	h := partialHistory(in.Cfg)
	start := ref.Position{File: "mysql-bin.000001", Pos: 4}
	served, _ := h.Serve(start.File, 4)
	exp, stop := ref.Expect(served, start)
	if stop != nil {
		return "generator error: " + stop.Why
	}
	out := Run(h, Opts{Start: start, ServerID: 3, LockStep: true, KeepTx: !in.Wipe, Wipe: in.Wipe, DSNParams: in.DSN})
	if out.Hung {
		return "HUNG"
	}
	if out.StreamPanic[0] != "" {
		return "panic in Stream: " + firstLine(out.StreamPanic[0])
	}
	if out.StreamErr[0] != nil {
		return "Stream failed on a well-formed binlog: " + clip(out.StreamErr[0].Error(), 200)
	}
	if d := hx.CompareAll(exp, out.Snaps()); d != "" {
		if in.DSN != "" {
			d = "(data source name with " + in.DSN + ") " + d
		}
		if in.Wipe {
			return "the handler overwrites everything it is given (as a consumer that completes a partial image in place does): " + d
		}
		return d
	}
	for i, d := range out.Deliveries {
		if d.Tx == nil {
			continue
		}
		if diff := d.Snap.Diff(hx.Snapshot(d.Tx)); diff != "" {
			return fmt.Sprintf("delivery %d changed after it was delivered: %s", i, diff)
		}
		if why := CheckMarshal(d.Tx, d.Snap); why != "" {
			return fmt.Sprintf("delivery %d serialised to JSON: %s", i, why)
		}
		if why := hx.AliasProbe(d.Tx); why != "" {
			return fmt.Sprintf("delivery %d: %s", i, why)
		}
	}
	return ""
}

// RunPartialImages is shared by C08 (scale half), C11, C12, C13 and C15.
func RunPartialImages(r *chk.Run) {
	var n int64
	var ins []PartialInput
	for ci, cfg := range Cfgs() {
		cfg.PadOnes = ci%2 == 1 // the unused bits of the bitmaps' last bytes set, as a server that starts from all-ones leaves them
		for _, wipe := range []bool{false, true} {
			ins = append(ins, PartialInput{Cfg: cfg, Wipe: wipe})
		}
	}
	// what an application's DSN carries must not change what is delivered
	for _, dsn := range []string{"?loc=Asia%2FTokyo", "?parseTime=true&loc=America%2FNew_York&charset=utf8mb4", "?loc=UTC&timeout=5s&readTimeout=30s", "?collation=latin1_swedish_ci&columnsWithAlias=true&interpolateParams=true"} {
		ins = append(ins, PartialInput{Cfg: Cfgs()[3], DSN: dsn}, PartialInput{Cfg: Cfgs()[12], DSN: dsn})
	}
	// ... also for a Streamer with a plain DSN that is created after one with parameters
	ins = append(ins, PartialInput{Cfg: Cfgs()[3]})
	for _, in := range ins {
		{
			in := in
			cfg, wipe := in.Cfg, in.Wipe
			n++
			if why := checkPartial(in); why == "HUNG" {
				hungViolation(r, "checkPartial", "partial", in)
			} else if why != "" {
				r.Report(chk.Violation{Key: "partial-images", What: fmt.Sprintf("cfg=%s wipe=%v: %s", CfgName(cfg), wipe, why), Kind: "partial", Replay: in, Recheck: func() string { return checkPartial(in) }})
			}
		}
	}
	r.Eval(n)
	r.DistinctN(n)
	r.Set("partial_image_executions", fmt.Sprintf("%d: a table of 10 columns (integers, VARCHAR, TIMESTAMP(3), two DECIMALs of different size, DATETIME(6), TIME(2), JSON, BLOB) changed with partial row images (key-only and whole-row before images, one to four columns after; several rows and several events behind one table map; partial inserts and deletes), under every wire configuration, with a handler that keeps everything and with one that overwrites everything it is given", n))
}

// ReplayPartial replays a partial-image execution.
func ReplayPartial(input json.RawMessage) (bool, string) {
	var in PartialInput
	if err := json.Unmarshal(input, &in); err != nil {
		return false, err.Error()
	}
	why := checkPartial(in)
	if why == "" {
		return false, "every image is delivered as logged"
	}
	return true, why
}

// ---- a mapper that returns tables under other names ---------------------------------------

func checkRename(cfg ref.Cfg) string {
	g := &Gen{Cfg: cfg}
	h := g.Build([]string{UTxXID, UTx2, UAutoRows, UDDL, UTxCommit})
	start := ref.Position{File: h.Files[0].Name, Pos: 4}
	served, _ := h.Serve(start.File, 4)
	exp, stop := ref.Expect(served, start)
	if stop != nil {
		return "generator error: " + stop.Why
	}
	ren := map[string][2]string{"shop.item": {"logical", "items"}, "shop.audit": {"SHOP", "Audit_All"}}
	for i := range exp {
		for j := range exp[i].Events {
			e := &exp[i].Events[j]
			if nn, ok := ren[e.DB+"."+e.Table]; ok && e.IsRows {
				e.DB, e.Table = nn[0], nn[1]
			}
		}
	}
	mapper := hx.NewMapper(TablesOf(h)...)
	mapper.Rename = ren
	out := Run(h, Opts{Start: start, ServerID: 3, LockStep: true, KeepTx: true, Mapper: mapper})
	if out.Hung {
		return "HUNG"
	}
	if out.StreamPanic[0] != "" {
		return "panic in Stream: " + firstLine(out.StreamPanic[0])
	}
	if out.StreamErr[0] != nil {
		return "Stream failed on a well-formed binlog: " + clip(out.StreamErr[0].Error(), 200)
	}
	if d := hx.CompareAll(exp, out.Snaps()); d != "" {
		return "the mapper returns its tables under other names (shards folded into a logical table): " + d
	}
	for i, d := range out.Deliveries {
		if why := CheckMarshal(d.Tx, d.Snap); why != "" {
			return fmt.Sprintf("delivery %d serialised to JSON: %s", i, why)
		}
	}
	return ""
}

// RunRename is shared by C15 and C20.
func RunRename(r *chk.Run) {
	var n int64
	for _, cfg := range Cfgs() {
		cfg := cfg
		n++
		if why := checkRename(cfg); why == "HUNG" {
			hungViolation(r, "checkRename", "rename", cfg)
		} else if why != "" {
			r.Report(chk.Violation{Key: "mapper-rename", What: fmt.Sprintf("cfg=%s: %s", CfgName(cfg), why), Kind: "rename", Replay: cfg, Recheck: func() string { return checkRename(cfg) }})
		}
	}
	r.Eval(n)
	r.DistinctN(n)
	r.Set("mapper_rename_executions", n)
}

// ReplayRename replays a rename execution.
func ReplayRename(input json.RawMessage) (bool, string) {
	var cfg ref.Cfg
	if err := json.Unmarshal(input, &cfg); err != nil {
		return false, err.Error()
	}
	why := checkRename(cfg)
	if why == "" {
		return false, "events carry the names of the mapper's tables"
	}
	return true, why
}

// hungViolation: the real Stream (or Error()) did not return within 60 s although
// its master had served the whole history and ended the dump: a decode loop
// that does not end, a wait that nothing ends. Not a scheduling matter (E1
// decides those on the small systems): reported at once, the run ends here
// because stuck goroutines may keep allocating.
func hungViolation(r *chk.Run, what, kind string, replay interface{}) {
	if !r.StallReproduces(kind, replay) {
		return
	}
	r.Report(chk.Violation{Key: "no-progress", What: what + ": Stream did not return within 60 s although the master had served the whole history and ended the dump (a decode loop that does not end, a wait that nothing ends)", Kind: kind, Replay: replay})
	r.SetExhaustive(false)
	r.Finish()
}
