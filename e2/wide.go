package e2

import (
	"time"

	"verif/ref"
)

// The wide table: every supported column type (some twice, so that values of
// the same type sit next to each other in one row), three value sets.

type wideCol struct {
	col  ref.Column
	vals [3]ref.Cell
}

func jsonCell(d *ref.JDoc, text string) ref.Cell {
	return ref.Cell{Raw: ref.JSONAppendCell(nil, d, ref.JSONNatural), Text: []byte(text)}
}

func wideCols() []wideCol {
	loc := time.Local
	b := func(s string) []byte { return []byte(s) }
	return []wideCol{
		{ref.ColInt(ref.TTiny, "c_tiny", false), [3]ref.Cell{ref.VInt(ref.TTiny, -128, false), ref.VInt(ref.TTiny, 0, false), ref.VInt(ref.TTiny, 127, false)}},
		{ref.ColInt(ref.TTiny, "c_utiny", true), [3]ref.Cell{ref.VInt(ref.TTiny, 255, true), ref.VInt(ref.TTiny, 128, true), ref.VInt(ref.TTiny, 1, true)}},
		{ref.ColInt(ref.TShort, "c_short", false), [3]ref.Cell{ref.VInt(ref.TShort, -32768, false), ref.VInt(ref.TShort, -1, false), ref.VInt(ref.TShort, 32767, false)}},
		{ref.ColInt(ref.TInt24, "c_int24", false), [3]ref.Cell{ref.VInt(ref.TInt24, -8388608, false), ref.VInt(ref.TInt24, -1, false), ref.VInt(ref.TInt24, 8388607, false)}},
		{ref.ColInt(ref.TInt24, "c_uint24", true), [3]ref.Cell{ref.VInt(ref.TInt24, 16777215, true), ref.VInt(ref.TInt24, 8388608, true), ref.VInt(ref.TInt24, 0, true)}},
		{ref.ColInt(ref.TLong, "c_long", false), [3]ref.Cell{ref.VInt(ref.TLong, -2147483648, false), ref.VInt(ref.TLong, 7, false), ref.VInt(ref.TLong, 2147483647, false)}},
		{ref.ColInt(ref.TLongLong, "c_ubig", true), [3]ref.Cell{ref.VUint64(^uint64(0)), ref.VUint64(1 << 63), ref.VUint64(0)}},
		{ref.ColInt(ref.TLongLong, "c_big", false), [3]ref.Cell{ref.VInt(ref.TLongLong, -9223372036854775808, false), ref.VInt(ref.TLongLong, -1, false), ref.VInt(ref.TLongLong, 9223372036854775807, false)}},
		{ref.ColFloat("c_float"), [3]ref.Cell{ref.VFloat(1.5), ref.VFloat(-0.25), ref.VFloat(16777216)}},
		{ref.ColDouble("c_double"), [3]ref.Cell{ref.VDouble(-2.5), ref.VDouble(1e15), ref.VDouble(0.125)}},
		{ref.ColDecimal("c_dec", 20, 2), [3]ref.Cell{ref.VDecimal(20, 2, "5.00"), ref.VDecimal(20, 2, "-123456789012345678.90"), ref.VDecimal(20, 2, "0.00")}},
		{ref.ColDecimal("c_dec0", 9, 0), [3]ref.Cell{ref.VDecimal(9, 0, "0"), ref.VDecimal(9, 0, "-1"), ref.VDecimal(9, 0, "999999999")}},
		{ref.ColPlain(ref.TYear, "c_year"), [3]ref.Cell{ref.VYear(0), ref.VYear(1901), ref.VYear(2155)}},
		{ref.ColPlain(ref.TDate, "c_date"), [3]ref.Cell{ref.VDate3(0, 0, 0), ref.VDate3(2024, 2, 29), ref.VDate3(9999, 12, 31)}},
		{ref.ColPlain(ref.TTime, "c_time"), [3]ref.Cell{ref.VTimeOld(true, 0, 0, 5), ref.VTimeOld(true, 1, 2, 3), ref.VTimeOld(false, 838, 59, 59)}},
		{ref.ColPlain(ref.TDateTime, "c_dt"), [3]ref.Cell{ref.VDateTime8(0, 0, 0, 0, 0, 0), ref.VDateTime8(2015, 1, 15, 23, 24, 25), ref.VDateTime8(9999, 12, 31, 23, 59, 59)}},
		{ref.ColPlain(ref.TTimestamp, "c_ts"), [3]ref.Cell{ref.VTimestampOld(0, loc), ref.VTimestampOld(1490106309, loc), ref.VTimestampOld(2147483647, loc)}},
		{ref.ColFsp(ref.TTimestamp2, "c_ts2_0", 0), [3]ref.Cell{ref.VTimestamp2(0, 0, 0, loc), ref.VTimestamp2(0, 1, 0, loc), ref.VTimestamp2(0, 1490106309, 0, loc)}},
		{ref.ColFsp(ref.TTimestamp2, "c_ts2_3", 3), [3]ref.Cell{ref.VTimestamp2(3, 0, 0, loc), ref.VTimestamp2(3, 1490106309, 120000, loc), ref.VTimestamp2(3, 2147483647, 999000, loc)}},
		{ref.ColFsp(ref.TDateTime2, "c_dt2_6", 6), [3]ref.Cell{ref.VDateTimeFsp(6, 0, 0, 0, 0, 0, 0, 0), ref.VDateTimeFsp(6, 2015, 1, 15, 23, 24, 25, 1), ref.VDateTimeFsp(6, 9999, 12, 31, 23, 59, 59, 999999)}},
		{ref.ColFsp(ref.TTime2, "c_t2_0", 0), [3]ref.Cell{ref.VTime2(0, true, 838, 59, 59, 0), ref.VTime2(0, false, 0, 0, 0, 0), ref.VTime2(0, true, 0, 0, 1, 0)}},
		{ref.ColFsp(ref.TTime2, "c_t2_5", 5), [3]ref.Cell{ref.VTime2(5, true, 0, 0, 0, 10), ref.VTime2(5, true, 1, 2, 3, 500000), ref.VTime2(5, false, 100, 0, 0, 999990)}},
		{ref.ColVarchar("c_vc", 255), [3]ref.Cell{ref.VVarchar(255, b("")), ref.VVarchar(255, b("short")), ref.VVarchar(255, make([]byte, 255))}},
		{ref.ColVarchar("c_vc2", 256), [3]ref.Cell{ref.VVarchar(256, b("two-byte prefix")), ref.VVarchar(256, b("")), ref.VVarchar(256, b("\xf0\x9f\x98\x80"))}},
		{ref.ColChar("c_char", 255), [3]ref.Cell{ref.VChar(255, b("c")), ref.VChar(255, b("")), ref.VChar(255, b("0123456789"))}},
		{ref.ColChar("c_char2", 1020), [3]ref.Cell{ref.VChar(1020, b("wide char")), ref.VChar(1020, make([]byte, 300)), ref.VChar(1020, b(""))}},
		{ref.ColEnum("c_enum", 1), [3]ref.Cell{ref.VEnum(1, 1), ref.VEnum(1, 255), ref.VEnum(1, 0)}},
		{ref.ColEnum("c_enum2", 2), [3]ref.Cell{ref.VEnum(2, 256), ref.VEnum(2, 65535), ref.VEnum(2, 1)}},
		{ref.ColSet("c_set", 8), [3]ref.Cell{ref.VSet(8, 1<<63), ref.VSet(8, 5), ref.VSet(8, ^uint64(0))}},
		{ref.ColBit("c_bit", 1), [3]ref.Cell{ref.VBit(1, 1), ref.VBit(1, 0), ref.VBit(1, 1)}},
		{ref.ColBit("c_bit64", 64), [3]ref.Cell{ref.VBit(64, 0x8000000000000001), ref.VBit(64, 0), ref.VBit(64, ^uint64(0))}},
		{ref.ColBlob("c_blob1", 1), [3]ref.Cell{ref.VBlob(1, b("tiny")), ref.VBlob(1, b("")), ref.VBlob(1, make([]byte, 255))}},
		{ref.ColBlob("c_blob2", 2), [3]ref.Cell{ref.VBlob(2, make([]byte, 300)), ref.VBlob(2, b("b")), ref.VBlob(2, b(""))}},
		{ref.ColBlob("c_blob3", 3), [3]ref.Cell{ref.VBlob(3, b("medium")), ref.VBlob(3, make([]byte, 70000)), ref.VBlob(3, b("m"))}},
		{ref.ColBlob("c_blob4", 4), [3]ref.Cell{ref.VBlob(4, b("long")), ref.VBlob(4, b("")), ref.VBlob(4, b("l"))}},
		{ref.ColGeometry("c_geo", 4), [3]ref.Cell{ref.VBlob(4, b("\x00\x00\x00\x00\x01\x01\x00\x00\x00\x00\x00\x00\x00\x00\x00\xf0\x3f\x00\x00\x00\x00\x00\x00\x00\x40")), ref.VBlob(4, b("")), ref.VBlob(4, b("g"))}},
		{ref.ColJSON("c_json", 4), [3]ref.Cell{
			jsonCell(ref.JObj([]string{"a"}, []*ref.JDoc{ref.JS("b")}), "JSON_OBJECT('a','b')"),
			jsonCell(ref.JArr(ref.JI(1), ref.JI(2)), "JSON_ARRAY(1,2)"),
			jsonCell(ref.JArr(), "JSON_ARRAY()")}},
		{ref.ColJSON("c_json2", 4), [3]ref.Cell{
			jsonCell(ref.JArr(ref.JI(1), ref.JI(2)), "JSON_ARRAY(1,2)"),
			jsonCell(ref.JObj([]string{"a"}, []*ref.JDoc{ref.JI(2)}), "JSON_OBJECT('a',2)"),
			jsonCell(ref.JObj(nil, nil), "JSON_OBJECT()")}},
	}
}

func wideTable() *ref.Table {
	t := &ref.Table{ID: 90, DB: "shop", Name: "everything", Flags: 1}
	for _, c := range wideCols() {
		t.Cols = append(t.Cols, c.col)
	}
	return t
}

func wideImage(variant int, nullEvery int) ref.Image {
	cols := wideCols()
	img := make(ref.Image, len(cols))
	for i, c := range cols {
		img[i] = c.vals[(variant+i)%3]
		if nullEvery > 0 && (i+variant)%nullEvery == 0 {
			img[i] = ref.Cell{Null: true}
		}
	}
	return img
}

func init() {
	wideReady = true
	wideVariants = 3
	wideEvents = func(g *Gen, p Pattern) []*ref.AEvent {
		t := wideTable()
		ts := g.tick()
		v := p.Wide - 1
		rc := ref.RowChange{}
		rc2 := ref.RowChange{}
		if p.Kind != 0 {
			rc.Before = wideImage(v, 0)
			rc2.Before = wideImage(v+1, 5)
		}
		if p.Kind != 2 {
			rc.After = wideImage(v+2, 0)
			rc2.After = wideImage(v, 7)
		}
		return []*ref.AEvent{ref.Q(ts, "shop", "BEGIN"), ref.TM(ts, t),
			ref.R(ts, ref.RowKind(p.Kind), t, rc, rc2), ref.X(ts+1, 5151)}
	}
}
