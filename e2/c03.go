package e2

import (
	"fmt"
	"os"

	"verif/chk"
	"verif/hx"
	"verif/ref"
)

func init() {
	chk.Register(&chk.Check{ID: "C03", Run: runC03, Replay: replayHist})
}

func getenv(k string) string { return os.Getenv(k) }

// placeBases computes per-file base offsets for an offset mode:
//
//	"mid31": the events of each file straddle 2^31
//	"hi32":  the last event of each file ends exactly at 2^32-1
func placeBases(in *HistInput, mode string) bool {
	if mode == "" {
		return true
	}
	in.Bases = nil
	h := in.build()
	bases := make([]uint64, len(h.Files))
	for i, f := range h.Files {
		if len(f.Events) == 0 {
			continue
		}
		first := f.Events[0]
		for _, e := range f.Events {
			if e.Kind != ref.APrevGTIDs {
				first = e
				break
			}
		}
		size := f.Events[len(f.Events)-1].End - first.Pos
		if size == 0 {
			continue
		}
		switch mode {
		case "mid31":
			bases[i] = 1<<31 - size/2
		case "hi32":
			bases[i] = 1<<32 - 1 - size
		}
	}
	in.Bases = bases
	return true
}

// checkResume: base run from the first file, labels and chain, then every
// delivered transaction as a resume point.
func checkResume(in HistInput) string {
	if in.RejectAt > 0 || in.CutAt > 0 {
		// the Streamer's own resume point: a rejected delivery, then a second
		// Stream call on the same object (labels and contents of a fresh stream)
		w, _, _ := checkGrouping(in)
		return w
	}
	h := in.build()
	start := ref.Position{File: h.Files[0].Name, Pos: 4}
	if in.EmptyStart {
		start.File = ""
	}
	served, err := h.Serve(start.File, start.Pos)
	if err != nil {
		return "generator error: " + err.Error()
	}
	exp, stop := ref.Expect(served, start)
	if stop != nil {
		return "generator error: " + stop.Why
	}
	base := Run(h, Opts{Start: start, ServerID: 9, LockStep: in.LockStep, KeepTx: true})
	if base.Hung {
		return "HUNG"
	}
	if base.StreamPanic[0] != "" {
		return "panic in Stream: " + base.StreamPanic[0]
	}
	if base.StreamErr[0] != nil {
		return "Stream failed on a well-formed binlog: " + clip(base.StreamErr[0].Error(), 200)
	}
	got := base.Snaps()
	if d := hx.CompareAll(exp, got); d != "" {
		return d
	}
	for i, d := range base.Deliveries {
		if diff := d.Snap.Diff(hx.Snapshot(d.Tx)); diff != "" {
			return fmt.Sprintf("delivery %d changed after it was delivered (re-read after the stream ended): %s", i, diff)
		}
	}
	// (i) chain, stated on the delivered labels alone
	prevFile, prevPos := start.File, int64(start.Pos)
	for k, s := range got {
		okChain := s.NowFile == prevFile && s.NowPos == prevPos
		if !okChain {
			// or the target of an intervening rotation: offset 4 of a later file
			for _, f := range h.Files {
				if f.Name == s.NowFile && s.NowPos == 4 && f.Name != prevFile {
					okChain = true
				}
			}
		}
		if !okChain {
			return fmt.Sprintf("chain broken at delivery %d: NowPosition %s:%d, previous NextPosition %s:%d", k, s.NowFile, s.NowPos, prevFile, prevPos)
		}
		prevFile, prevPos = s.NextFile, s.NextPos
	}
	// (iii) every delivered transaction as a resume point
	for k := range got {
		rp := ref.Position{File: got[k].NextFile, Pos: uint64(got[k].NextPos)}
		res := Run(h, Opts{Start: rp, ServerID: 9, LockStep: in.LockStep})
		if res.Hung {
			return "HUNG"
		}
		if res.StreamPanic[0] != "" {
			return fmt.Sprintf("resume at delivery %d (%s): panic: %s", k, rp, res.StreamPanic[0])
		}
		d := res.DumpOf(0)
		if d == nil {
			return fmt.Sprintf("resume at delivery %d (%s): no dump request reached the master", k, rp)
		}
		if d.File != rp.File || uint64(d.Pos) != rp.Pos {
			return fmt.Sprintf("resume at delivery %d: dump request %s:%d, label was %s", k, d.File, d.Pos, rp)
		}
		if res.StreamErr[0] != nil {
			return fmt.Sprintf("resume at delivery %d (%s): Stream failed: %s", k, rp, clip(res.StreamErr[0].Error(), 200))
		}
		if res.Err1[0] != nil {
			return fmt.Sprintf("resume at delivery %d (%s): Error() = %s (the label is not a position the master can serve?)", k, rp, clip(res.Err1[0].Error(), 200))
		}
		rs := res.Snaps()
		rest := got[k+1:]
		if len(rs) != len(rest) {
			return fmt.Sprintf("resume at delivery %d (%s): %d transactions delivered, %d remain in the original stream", k, rp, len(rs), len(rest))
		}
		for j := range rest {
			if diff := rest[j].Diff(rs[j]); diff != "" {
				return fmt.Sprintf("resume at delivery %d (%s): resumed transaction %d differs from original transaction %d: %s", k, rp, j, k+1+j, diff)
			}
		}
	}
	return ""
}

func runC03(r *chk.Run) {
	depth := 4
	if r.Thorough() {
		depth = 5
	}
	if v := intEnv("VERIF_C03_DEPTH"); v > 0 {
		depth = v
	}
	cfgA := ref.Cfg{Checksum: ref.ChecksumCRC32, RowsV2: true, TableID6: true, GTID: true, ServerID: 5, ServerVer: "5.7.30-log"}
	cfgB := ref.Cfg{Checksum: ref.ChecksumOff, RowsV2: false, TableID6: false, ServerID: 5, ServerVer: "5.5.62"}
	alpha := []string{UTxXID, UDDL, URotate, UTxCommit, UUnknownSt, UAutoRows, URotateStop, UTxRollback, UGTID, UTx2, UTxDDL}
	long := make([]byte, 255)
	for i := range long {
		long[i] = 'a' + byte(i%26)
	}
	nameSets := [][]string{nil, {"a", "b", "c", "d"}, {"binlog with space.1", "\xe4\xba\x8c\xe8\xbf\x9b\xe5\x88\xb6.000002", string(long), "x.4"}}
	resumePoints := 0
	hr := newHistRunner(r, "C03", func(in HistInput) (string, int, int) {
		why := checkResume(in)
		h := in.build()
		served, _ := h.Serve(h.Files[0].Name, 4)
		exp, _ := ref.Expect(served, ref.Position{File: h.Files[0].Name, Pos: 4})
		return why, len(served) * (1 + len(exp)), len(exp)
	})
	count := 0
	Sequences(alpha, depth, func(seq []string) {
		rot := 0
		for _, u := range seq {
			if u == URotate || u == URotateStop {
				rot++
			}
		}
		if rot > 2 {
			return
		}
		units := append([]string{}, seq...)
		for mi, mode := range []string{"", "mid31", "hi32"} {
			for ci, cfg := range []ref.Cfg{cfgA, cfgB} {
				if len(seq) > 3 && mode != "" && ci == 1 {
					continue // old-format configuration with shifted offsets only up to depth 3
				}
				in := HistInput{Units: units, Cfg: cfg, LockStep: (count+mi)%2 == 0, Oracle: "resume", Names: nameSets[(count+mi+ci)%len(nameSets)]}
				placeBases(&in, mode)
				if !hr.add(in) {
					return
				}
				count++
				if count%997 == 0 {
					r.Sample(mode, map[string]interface{}{"units": units, "cfg": CfgName(cfg), "offset_mode": mode, "bases": in.Bases, "names": in.Names})
				}
				if len(seq) <= 3 && len(seq) > 0 && ci == 0 {
					for k := 1; k <= len(seq); k++ {
						in2 := in
						in2.RejectAt = k
						if !hr.add(in2) {
							return
						}
					}
				}
				if len(seq) <= 3 && len(seq) > 0 && ci == 0 && mode == "" {
					// the stream starts with an empty file name: every label up to the
					// first rotation carries it and must still be a resume point
					in3 := in
					in3.EmptyStart = true
					if !hr.add(in3) {
						return
					}
				}
				if len(seq) <= 2 && len(seq) > 0 && ci == 0 {
					// the connection is lost in front of every packet of the dump in turn
					for k := 2; k <= 14; k++ {
						in2 := in
						in2.CutAt = k + 1
						if !hr.add(in2) {
							return
						}
					}
				}
			}
		}
	})
	// a statement the library does not classify inside a transaction (SAVEPOINT):
	// labels, resume points, and the connection lost in front of every packet
	for _, cfg := range []ref.Cfg{cfgA, cfgB} {
		base := HistInput{Units: []string{UTxXID, UTxSave, UTxCommit}, Cfg: cfg, LockStep: true, Oracle: "resume"}
		hr.add(base)
		for k := 2; k <= 20; k++ {
			in := base
			in.CutAt = k + 1
			hr.add(in)
		}
		for k := 1; k <= 3; k++ {
			in := base
			in.RejectAt = k
			hr.add(in)
		}
	}
	hr.finish()
	_ = resumePoints
	r.Set("alphabet", alpha)
	r.Set("depth", depth)
	r.Set("histories", count)
	r.Set("offset_modes", []string{"contiguous from 4", "events straddle 2^31", "last event ends at 2^32-1"})
	r.Rule("all unit sequences of length 0..depth over {txX, ddl, rotate, txC, autocommitted rows, rolled-back tx, 2-table tx} with at most 2 rotations (3 files) x 3 offset placements x 2 wire configurations x 3 file-name sets; for each history: deliveries vs reference labels, chain invariant on the delivered labels, and for EVERY delivered transaction a second streamer started at its NextPosition (dump request checked by the simulated master) must deliver exactly the original suffix; states counts histories, transitions counts events fed including resumed runs")
	r.Assume("offsets are header fields and master addressing: a file whose events sit near 2^31 / 2^32 is simulated by a gap after the header events (no 4 GB file is materialised)")
	r.SetExhaustive(true)
}
