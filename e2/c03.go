package e2

import (
	"fmt"
	"os"

	"verif/chk"
	"verif/hx"
	"verif/ref"
	"verif/simmaster"
)

func init() {
	chk.Register(&chk.Check{ID: "C03", Run: runC03, Replay: replayHist})
}

func getenv(k string) string { return os.Getenv(k) }

// placeBases computes per-file base offsets for an offset mode:
//
//	"mid31": the events of each file straddle 2^31
//	"hi32":  the last event of each file ends exactly at 2^32-1
//	"wrap32": the events of each file straddle 2^32
func placeBases(in *HistInput, mode string) bool {
	if mode == "" {
		return true
	}
	in.Bases = nil
	h := in.build()
	bases := make([]uint64, len(h.Files))
	for i, f := range h.Files {
		if len(f.Events) == 0 {
			continue
		}
		first := f.Events[0]
		for _, e := range f.Events {
			if e.Kind != ref.APrevGTIDs {
				first = e
				break
			}
		}
		size := f.Events[len(f.Events)-1].End - first.Pos
		if size == 0 {
			continue
		}
		switch mode {
		case "mid31":
			bases[i] = 1<<31 - size/2
		case "hi32":
			bases[i] = 1<<32 - 1 - size
		case "wrap32":
			// the file has grown beyond 4 GiB: the events straddle 2^32, the header
			// fields of the later ones hold the low 32 bits of their offsets
			bases[i] = 1<<32 - size/2
		}
	}
	in.Bases = bases
	return true
}

// checkResume: base run from the first file, labels and chain, then every
// delivered transaction as a resume point.
func checkResume(in HistInput) string {
	if in.RejectAt > 0 || in.CutAt > 0 {
		// the Streamer's own resume point: a rejected delivery, then a second
		// Stream call on the same object (labels and contents of a fresh stream)
		w, _, _ := checkGrouping(in)
		return w
	}
	h := in.build()
	start := ref.Position{File: h.Files[0].Name, Pos: 4}
	if in.EmptyStart {
		start.File = ""
	}
	served, err := h.Serve(start.File, start.Pos)
	if err != nil {
		return "generator error: " + err.Error()
	}
	exp, stop := ref.Expect(served, start)
	if stop != nil {
		return "generator error: " + stop.Why
	}
	base := Run(h, Opts{Start: start, ServerID: 9, LockStep: in.LockStep, KeepTx: !in.Wipe, Wipe: in.Wipe})
	if base.Hung {
		return "HUNG"
	}
	if base.StreamPanic[0] != "" {
		return "panic in Stream: " + base.StreamPanic[0]
	}
	if base.StreamErr[0] != nil {
		return "Stream failed on a well-formed binlog: " + clip(base.StreamErr[0].Error(), 200)
	}
	got := base.Snaps()
	if d := hx.CompareAll(exp, got); d != "" {
		return d
	}
	for i, d := range base.Deliveries {
		if d.Tx == nil {
			continue // the handler wiped what it got
		}
		if diff := d.Snap.Diff(hx.Snapshot(d.Tx)); diff != "" {
			return fmt.Sprintf("delivery %d changed after it was delivered (re-read after the stream ended): %s", i, diff)
		}
	}
	// (i) chain, stated on the delivered labels alone
	prevFile, prevPos := start.File, int64(start.Pos)
	for k, s := range got {
		okChain := s.NowFile == prevFile && s.NowPos == prevPos
		if !okChain {
			// or the target of an intervening rotation: offset 4 of a later file
			for _, f := range h.Files {
				if f.Name == s.NowFile && s.NowPos == 4 && f.Name != prevFile {
					okChain = true
				}
			}
		}
		if !okChain {
			return fmt.Sprintf("chain broken at delivery %d: NowPosition %s:%d, previous NextPosition %s:%d", k, s.NowFile, s.NowPos, prevFile, prevPos)
		}
		prevFile, prevPos = s.NextFile, s.NextPos
	}
	// (iii) every delivered transaction as a resume point
	for k := range got {
		if k < len(exp) && exp[k].CommitIndex < len(served) && served[exp[k].CommitIndex].End >= 1<<32 {
			// a dump request carries 32 bits of offset: no dump can start beyond
			// 4 GiB, the label is checked above and is not a resume point
			continue
		}
		rp := ref.Position{File: got[k].NextFile, Pos: uint64(got[k].NextPos)}
		res := Run(h, Opts{Start: rp, ServerID: 9, LockStep: in.LockStep, Wipe: in.Wipe})
		if res.Hung {
			return "HUNG"
		}
		if res.StreamPanic[0] != "" {
			return fmt.Sprintf("resume at delivery %d (%s): panic: %s", k, rp, res.StreamPanic[0])
		}
		d := res.DumpOf(0)
		if d == nil {
			return fmt.Sprintf("resume at delivery %d (%s): no dump request reached the master", k, rp)
		}
		if d.File != rp.File || uint64(d.Pos) != rp.Pos {
			return fmt.Sprintf("resume at delivery %d: dump request %s:%d, label was %s", k, d.File, d.Pos, rp)
		}
		if res.StreamErr[0] != nil {
			return fmt.Sprintf("resume at delivery %d (%s): Stream failed: %s", k, rp, clip(res.StreamErr[0].Error(), 200))
		}
		if res.Err1[0] != nil {
			return fmt.Sprintf("resume at delivery %d (%s): Error() = %s (the label is not a position the master can serve?)", k, rp, clip(res.Err1[0].Error(), 200))
		}
		rs := res.Snaps()
		rest := got[k+1:]
		if len(rs) != len(rest) {
			return fmt.Sprintf("resume at delivery %d (%s): %d transactions delivered, %d remain in the original stream", k, rp, len(rs), len(rest))
		}
		for j := range rest {
			if diff := rest[j].Diff(rs[j]); diff != "" {
				return fmt.Sprintf("resume at delivery %d (%s): resumed transaction %d differs from original transaction %d: %s", k, rp, j, k+1+j, diff)
			}
		}
	}
	return ""
}

// checkReposition: the whole history is streamed, then the caller moves the SAME
// Streamer back to the label of delivery k with SetBinlogPosition and streams
// again: the dump request is that label and the suffix is delivered again.
func checkReposition(in HistInput) string {
	h := in.build()
	start := ref.Position{File: h.Files[0].Name, Pos: 4}
	served, err := h.Serve(start.File, start.Pos)
	if err != nil {
		return "generator error: " + err.Error()
	}
	exp, stop := ref.Expect(served, start)
	if stop != nil {
		return "generator error: " + stop.Why
	}
	k := in.RepositionAt - 1
	if k >= len(exp) {
		return ""
	}
	rp := start
	if k >= 0 {
		rp = exp[k].Next
	}
	first := exp
	var plans []simmaster.Plan
	if in.CutAt > 0 {
		// the first attempt loses its connection in front of packet CutAt-1 (possibly
		// between a BEGIN and its commit); then the caller re-points the Streamer
		cut := in.CutAt - 1
		if cut >= len(served) {
			return ""
		}
		first = nil
		for _, e := range exp {
			if e.CommitIndex < cut {
				first = append(first, e)
			}
		}
		plans = []simmaster.Plan{{At: cut, Kind: "fin", Final: "eof"}, {At: -1, Final: "eof"}}
	}
	out := Run(h, Opts{Start: start, ServerID: 9, LockStep: in.LockStep, Attempts: 2, Wipe: in.Wipe, Plans: plans, Reposition: map[int]ref.Position{1: rp}})
	if out.Hung {
		return "HUNG"
	}
	for a, p := range out.StreamPanic {
		if p != "" {
			return fmt.Sprintf("panic in Stream (attempt %d): %s", a, p)
		}
	}
	for a, e := range out.StreamErr {
		if e != nil && !(a == 0 && in.CutAt > 0) {
			return fmt.Sprintf("attempt %d failed on a well-formed binlog: %s", a, clip(e.Error(), 200))
		}
	}
	d := out.DumpOf(1)
	if d == nil {
		return "the second attempt issued no dump request"
	}
	if d.File != rp.File || uint64(d.Pos) != rp.Pos {
		return fmt.Sprintf("SetBinlogPosition(%s) between two Stream calls of one Streamer: the second dump request asks for %s:%d", rp, d.File, d.Pos)
	}
	want := append(append([]ref.ExpTx{}, first...), exp[k+1:]...)
	if diff := hx.CompareAll(want, out.Snaps()); diff != "" {
		return fmt.Sprintf("after SetBinlogPosition(%s) between two Stream calls (first call: %d transactions; then everything behind the new position): %s", rp, len(first), diff)
	}
	return ""
}

func runC03(r *chk.Run) {
	RunTwoStreamsFirst(r)
	depth := 4
	if r.Thorough() {
		depth = 5
	}
	if v := intEnv("VERIF_C03_DEPTH"); v > 0 {
		depth = v
	}
	cfgA := ref.Cfg{Checksum: ref.ChecksumCRC32, RowsV2: true, TableID6: true, GTID: true, ServerID: 5, ServerVer: "5.7.30-log"}
	cfgB := ref.Cfg{Checksum: ref.ChecksumOff, RowsV2: false, TableID6: false, ServerID: 5, ServerVer: "5.5.62"}
	alpha := []string{UTxXID, UDDL, URotate, UTxCommit, UUnknownSt, UAutoRows, URotateStop, UTxRollback, UGTID, UTx2, UTxDDL}
	long := make([]byte, 255)
	for i := range long {
		long[i] = 'a' + byte(i%26)
	}
	nameSets := [][]string{nil, {"a", "b", "c", "d"}, {"binlog with space.1", "\xe4\xba\x8c\xe8\xbf\x9b\xe5\x88\xb6.000002", string(long), "x.4"}}
	resumePoints := 0
	hr := newHistRunner(r, "C03", func(in HistInput) (string, int, int) {
		why := ""
		if in.RepositionAt > 0 {
			why = checkReposition(in)
		} else {
			why = checkResume(in)
		}
		h := in.build()
		served, _ := h.Serve(h.Files[0].Name, 4)
		exp, _ := ref.Expect(served, ref.Position{File: h.Files[0].Name, Pos: 4})
		return why, len(served) * (1 + len(exp)), len(exp)
	})
	count := 0
	Sequences(alpha, depth, func(seq []string) {
		rot := 0
		for _, u := range seq {
			if u == URotate || u == URotateStop {
				rot++
			}
		}
		if rot > 2 {
			return
		}
		units := append([]string{}, seq...)
		for mi, mode := range []string{"", "mid31", "hi32", "wrap32"} {
			for ci, cfg := range []ref.Cfg{cfgA, cfgB} {
				if mode == "wrap32" && (len(seq) > 3 || len(seq) == 0) {
					continue
				}
				if len(seq) > 3 && mode != "" && ci == 1 {
					continue // old-format configuration with shifted offsets only up to depth 3
				}
				in := HistInput{Units: units, Cfg: cfg, LockStep: (count+mi)%2 == 0, Oracle: "resume", Names: nameSets[(count+mi+ci)%len(nameSets)]}
				placeBases(&in, mode)
				if !hr.add(in) {
					return
				}
				count++
				if count%997 == 0 {
					r.Sample(mode, map[string]interface{}{"units": units, "cfg": CfgName(cfg), "offset_mode": mode, "bases": in.Bases, "names": in.Names})
				}
				if len(seq) <= 3 && len(seq) > 0 && ci == 0 && mode != "wrap32" {
					for k := 1; k <= len(seq); k++ {
						in2 := in
						in2.RejectAt = k
						if !hr.add(in2) {
							return
						}
					}
				}
				if len(seq) <= 3 && len(seq) > 0 && ci == 0 && mode == "" {
					// a handler that owns what it gets: labels, chain and resume points all the same
					inw := in
					inw.Wipe = true
					if !hr.add(inw) {
						return
					}
					for k := 1; k <= len(seq); k++ {
						in2 := inw
						in2.RepositionAt = k
						hr.add(in2)
					}
				}
				if len(seq) <= 3 && len(seq) > 0 && ci == 0 && mode == "" {
					// the stream starts with an empty file name: every label up to the
					// first rotation carries it and must still be a resume point
					in3 := in
					in3.EmptyStart = true
					if !hr.add(in3) {
						return
					}
				}
				if len(seq) <= 2 && len(seq) > 0 && ci == 0 && mode != "wrap32" {
					// the connection is lost in front of every packet of the dump in turn
					for k := 2; k <= 14; k++ {
						in2 := in
						in2.CutAt = k + 1
						if !hr.add(in2) {
							return
						}
					}
				}
			}
		}
	})
	// a statement the library does not classify inside a transaction (SAVEPOINT):
	// labels, resume points, and the connection lost in front of every packet
	for _, cfg := range []ref.Cfg{cfgA, cfgB} {
		base := HistInput{Units: []string{UTxXID, UTxSave, UTxCommit}, Cfg: cfg, LockStep: true, Oracle: "resume"}
		hr.add(base)
		for k := 2; k <= 20; k++ {
			in := base
			in.CutAt = k + 1
			hr.add(in)
		}
		for k := 1; k <= 3; k++ {
			in := base
			in.RejectAt = k
			hr.add(in)
		}
	}
	// heartbeats (the master is idle) behind a rotation, in front of a file's
	// first transaction: the labels are those of the commit events all the same
	for _, cfg := range []ref.Cfg{cfgA, cfgB} {
		for _, units := range [][]string{{UTxXID, URotate, UHeartbeat, UTxXID}, {UTxXID, UHeartbeat, UDDL, URotate, UHeartbeat, UHeartbeat, UTxCommit, UHeartbeat}, {UHeartbeat, UTxXID, URotate, URotate, UHeartbeat, UAutoRows}} {
			hr.add(HistInput{Units: units, Cfg: cfg, LockStep: true, Oracle: "resume"})
			hr.add(HistInput{Units: units, Cfg: cfg, LockStep: false, Oracle: "resume", EmptyStart: true})
		}
	}
	// the caller moves the Streamer between two Stream calls
	for _, cfg := range []ref.Cfg{cfgA, cfgB} {
		for _, units := range [][]string{{UTxXID, URotate, UTxCommit, UTxXID}, {UDDL, UTx2, UAutoRows}, {UTxXID, UTxRollback, URotate, URotate, UTxXID}} {
			for k := 0; k <= 4; k++ {
				hr.add(HistInput{Units: units, Cfg: cfg, LockStep: k%2 == 0, Oracle: "resume", RepositionAt: k + 1})
			}
		}
	}
	// the first call loses its connection (also between a BEGIN and its commit),
	// then the caller re-points the Streamer to any boundary
	for _, cfg := range []ref.Cfg{cfgA, cfgB} {
		units := []string{UTxXID, UDDL, UAutoRows, UTxCommit, UDDL, UStmtOut}
		for cut := 3; cut <= 16; cut++ {
			for k := 0; k <= 6; k++ {
				hr.add(HistInput{Units: units, Cfg: cfg, LockStep: true, Oracle: "resume", RepositionAt: k + 1, CutAt: cut + 1})
			}
		}
	}
	hr.finish()
	RunScale(r, "big-transaction")
	RunChecksumChange(r)
	_ = resumePoints
	r.Set("alphabet", alpha)
	r.Set("depth", depth)
	r.Set("histories", count)
	r.Set("offset_modes", []string{"contiguous from 4", "events straddle 2^31", "last event ends at 2^32-1", "events straddle 2^32 (file beyond 4 GiB; labels are the 32-bit header fields, resume points only below 4 GiB)"})
	r.Rule("all unit sequences of length 0..depth over {txX, ddl, rotate, txC, autocommitted rows, rolled-back tx, 2-table tx} with at most 2 rotations (3 files) x 3 offset placements x 2 wire configurations x 3 file-name sets; for each history: deliveries vs reference labels, chain invariant on the delivered labels, and for EVERY delivered transaction a second streamer started at its NextPosition (dump request checked by the simulated master) must deliver exactly the original suffix; states counts histories, transitions counts events fed including resumed runs")
	r.Assume("offsets are header fields and master addressing: a file whose events sit near 2^31 / 2^32 is simulated by a gap after the header events (no 4 GB file is materialised)")
	r.SetExhaustive(true)
}
