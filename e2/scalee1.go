package e2

// The scale halves of the properties that engine E1 decides (C04, C05, C07,
// C08). E1 explores every schedule of small closed systems on the
// instrumented library; a code path that only exists beyond some size (a
// bounded buffer, a batch limit, a recycled list) is not in those systems. The
// executions here fix the scenario (a fault and a second Stream call on the
// same Streamer; a handler that fails while the master is far ahead; a handler
// that keeps everything) and sweep the SIZE, natively, one schedule each. They
// are started by cmd/vsched as a sub-run of the native engine (chk.SubPath)
// and their findings are filed under the property of the run that started them.

import (
	"bytes"
	"encoding/json"
	"fmt"
	"runtime"
	"strings"
	"time"

	"verif/chk"
	"verif/hx"
	"verif/ref"
	"verif/simmaster"
)

func init() {
	chk.Register(&chk.Check{ID: "C04", Run: func(r *chk.Run) { RunTwoStreamsFirst(r); RunScaleRetry(r, "C04") }, Replay: replayScaleE1})
	chk.Register(&chk.Check{ID: "C07", Run: func(r *chk.Run) { RunTwoStreamsFirst(r); RunContexts(r); RunScaleRetry(r, "C07") }, Replay: replayScaleE1})
	chk.Register(&chk.Check{ID: "C05", Run: func(r *chk.Run) { RunTwoStreamsFirst(r); RunBacklogTeardown(r) }, Replay: replayScaleE1})
	chk.Register(&chk.Check{ID: "C06", Run: func(r *chk.Run) { RunTwoStreamsFirst(r); RunContexts(r); RunSchemaLookupFails(r) }, Replay: replayScaleE1})
	chk.Register(&chk.Check{ID: "C08", Run: func(r *chk.Run) { RunTwoStreamsFirst(r); RunScaleKept(r) }, Replay: replayScaleE1})
}

func replayScaleE1(kind string, input json.RawMessage) (bool, string) {
	switch kind {
	case "scale-retry":
		var in ScaleRetryInput
		if err := json.Unmarshal(input, &in); err != nil {
			return false, err.Error()
		}
		why := checkScaleRetry(in)
		return why != "", why
	case "backlog":
		var in BacklogInput
		if err := json.Unmarshal(input, &in); err != nil {
			return false, err.Error()
		}
		why := checkBacklog(in)
		return why != "", why
	case "scale":
		return ReplayScale(input)
	case "nest":
		return ReplayNest(input)
	case "partial":
		return ReplayPartial(input)
	case "schema":
		return ReplaySchema(input)
	case "keptmarshal", "history":
		var in HistInput
		if err := json.Unmarshal(input, &in); err != nil {
			return false, err.Error()
		}
		h := in.build()
		out := Run(h, Opts{Start: ref.Position{File: h.Files[0].Name, Pos: 4}, ServerID: 3, LockStep: true, KeepTx: true})
		if out.Hung {
			return true, "Stream did not return within 60 s"
		}
		for i, d := range out.Deliveries {
			json.Marshal(d.Tx)
			if diff := d.Snap.Diff(hx.Snapshot(d.Tx)); diff != "" {
				return true, fmt.Sprintf("delivery %d reads differently after it was serialised to JSON: %s", i, diff)
			}
		}
		return false, "kept transactions read as delivered after they were serialised"
	case "ctx":
		var in CtxInput
		if err := json.Unmarshal(input, &in); err != nil {
			return false, err.Error()
		}
		why := checkCtx(in)
		return why != "", why
	}
	return false, "unknown replay kind " + kind
}

// ---- C04 / C07: a fault inside a very large transaction, then a second attempt ----

// ScaleRetryInput is one execution: the big-transaction history, the first
// Stream call ended by a lost connection in front of packet At (or by the
// handler rejecting delivery Reject-1), a second Stream call on the same Streamer.
type ScaleRetryInput struct {
	N      int    `json:"n"`
	At     int    `json:"at,omitempty"`
	Reject int    `json:"reject,omitempty"`
	Prop   string `json:"prop"`
}

var scaleRetryCfg = ref.Cfg{Checksum: ref.ChecksumCRC32, RowsV2: true, TableID6: true, ServerID: 5, ServerVer: "5.7.30-log"}

func checkScaleRetry(in ScaleRetryInput) string {
	h := injHistoryOf(InjInput{BigN: in.N})
	start := ref.Position{File: h.Files[0].Name, Pos: 4}
	served, _ := h.Serve(start.File, 4)
	exp, stop := ref.Expect(served, start)
	if stop != nil {
		return "generator error: " + stop.Why
	}
	o := Opts{Start: start, ServerID: 77, LockStep: false, Attempts: 2}
	if in.Reject > 0 {
		o.FailSet, o.FailAt = true, in.Reject-1
		o.Plans = []simmaster.Plan{{At: -1, Final: "eof"}, {At: -1, Final: "eof"}}
	} else {
		o.Plans = []simmaster.Plan{{At: in.At, Kind: "fin", Final: "eof"}, {At: -1, Final: "eof"}}
	}
	out := Run(h, o)
	if out.Hung {
		return "Stream or Error() did not return within 60 s"
	}
	for a, p := range out.StreamPanic {
		if p != "" {
			return fmt.Sprintf("panic in Stream (attempt %d): %s", a, firstLine(p))
		}
	}
	// the boundary the first attempt got to: the last accepted delivery of attempt 0
	want := start
	var accepted []hx.TxSnap
	for _, d := range out.Deliveries {
		if d.Accepted {
			accepted = append(accepted, d.Snap)
		}
	}
	n0 := 0
	for _, d := range out.Deliveries {
		if d.Attempt == 0 && d.Accepted {
			n0++
		}
	}
	if n0 > len(exp) {
		return fmt.Sprintf("the first attempt accepted %d transactions, the history up to the fault holds at most %d", n0, len(exp))
	}
	if n0 > 0 {
		want = exp[n0-1].Next
	}
	if in.Prop != "C04" {
		d := out.DumpOf(1)
		if d == nil {
			return "the second attempt issued no dump request"
		}
		if d.File != want.File || uint64(d.Pos) != want.Pos {
			return fmt.Sprintf("the second attempt asked for %s:%d; the boundary behind the last accepted transaction is %s (a transaction of %d rows events was open when the first attempt ended)", d.File, d.Pos, want, in.N)
		}
	}
	if in.Prop != "C07" {
		if len(out.StreamErr) == 2 && out.StreamErr[1] != nil {
			return "the second Stream call of the same Streamer failed on a well-formed binlog: " + clip(out.StreamErr[1].Error(), 200)
		}
		if d := hx.CompareAll(exp, accepted); d != "" {
			return fmt.Sprintf("accepted transactions over both attempts (every committed transaction exactly once, whole): %s", d)
		}
	}
	return ""
}

// RunScaleRetry is the scale half of C04 and C07.
func RunScaleRetry(r *chk.Run, prop string) {
	n := 140000
	if r.Thorough() {
		n = 300000
	}
	h := injHistoryOf(InjInput{BigN: n})
	served, _ := h.Serve(h.Files[0].Name, 4)
	xid := 0
	for i, e := range served {
		if e.Kind == ref.AXID && e.XID == 2 {
			xid = i
		}
	}
	first := xid - n // the first rows event of the big transaction
	var ins []ScaleRetryInput
	for _, k := range []int{1, 1000, 1025, 4097, 4600, 8193, 16385, 65537, 131073, n - 1} {
		if k < n {
			ins = append(ins, ScaleRetryInput{N: n, At: first + k, Prop: prop})
		}
	}
	ins = append(ins, ScaleRetryInput{N: n, At: xid, Prop: prop}, ScaleRetryInput{N: n, At: xid + 1, Prop: prop},
		ScaleRetryInput{N: n, Reject: 2, Prop: prop}, ScaleRetryInput{N: n, Reject: 3, Prop: prop})
	var cnt int64
	for _, in := range ins {
		if r.Expired() {
			r.SetExhaustive(false)
			return
		}
		if r.Violated() {
			break
		}
		in := in
		cnt++
		if why := checkScaleRetry(in); why != "" {
			r.Report(chk.Violation{Key: "retry-in-big-transaction", What: fmt.Sprintf("one transaction of %d rows events, first attempt ended at packet %d / by rejecting delivery %d: %s", in.N, in.At, in.Reject, why),
				Kind: "scale-retry", Replay: in, Recheck: func() string { return checkScaleRetry(in) }})
		}
	}
	r.Eval(cnt)
	r.DistinctN(cnt)
	r.Transitions(cnt * int64(n))
	r.Set("scale_retry", fmt.Sprintf("%d executions on a history with one transaction of %d rows events between two small ones: the connection is lost after 1, 1000, 1025, 4097, 4600, 8193, 16385 and all but one of its rows events, at its commit event and behind it, or the handler rejects it or its successor; then a second Stream call on the same Streamer", cnt, n))
	r.Rule("scale half (native, one schedule per execution): the scenario of the small closed systems of E1 with the size of one transaction swept; oracle: the dump request of the second attempt is the boundary behind the last accepted transaction, every committed transaction is accepted exactly once and whole over both attempts")
	r.SetExhaustive(true)
}

// ---- C05: the master far ahead when the stream ends ---------------------------------

// BacklogInput: N small transactions; the handler fails at delivery FailAt after
// the master has written everything (so that whatever queue the library puts
// between its reader and its parser is as full as N packets can make it).
type BacklogInput struct {
	N      int `json:"n"`
	FailAt int `json:"fail_at"`
}

func backlogHistory(n int) *ref.History {
	g := &Gen{Cfg: scaleRetryCfg}
	ta := TA(70)
	var evs []*ref.AEvent
	for i := 0; i < n; i++ {
		ts := g.tick()
		evs = append(evs, ref.TM(ts, ta), ref.R(ts, ref.RowWrite, ta, ref.RowChange{After: rowA(int64(i), "b", int64(i%50000))}))
	}
	h := &ref.History{Cfg: scaleRetryCfg, Files: []*ref.File{{Name: "mysql-bin.000001", Events: evs}}}
	h.Layout()
	return h
}

func libGoroutines() string {
	buf := make([]byte, 1<<20)
	n := runtime.Stack(buf, true)
	for _, g := range strings.Split(string(buf[:n]), "\n\n") {
		if strings.Contains(g, "gobinlog.(*slaveConnection)") || strings.Contains(g, "gobinlog.(*Streamer)") || strings.Contains(g, "mysql.(*mysqlConn).startWatcher") {
			if !strings.Contains(g, "e2.Run") {
				lines := strings.Split(g, "\n")
				var fn []string
				for _, l := range lines[1:] {
					if !strings.HasPrefix(l, "\t") && len(fn) < 4 {
						if i := strings.LastIndex(l, "("); i > 0 {
							l = l[:i]
						}
						fn = append(fn, l)
					}
				}
				return strings.TrimSuffix(strings.TrimPrefix(lines[0], "goroutine "), ":") + " in " + strings.Join(fn, " < ")
			}
		}
	}
	return ""
}

func checkBacklog(in BacklogInput) string {
	h := backlogHistory(in.N)
	start := ref.Position{File: h.Files[0].Name, Pos: 4}
	out := Run(h, Opts{Start: start, ServerID: 77, LockStep: false, FailSet: true, FailAt: in.FailAt, WaitAllReleased: true,
		Plans: []simmaster.Plan{{At: -1, Final: "silent"}}})
	if out.Hung {
		return fmt.Sprintf("the handler failed at delivery %d while the master was %d packets ahead: Stream or Error() did not return within 60 s", in.FailAt, 2*in.N)
	}
	if out.StreamPanic[0] != "" {
		return "panic in Stream: " + firstLine(out.StreamPanic[0])
	}
	if out.StreamErr[0] == nil {
		return "the handler failed but Stream returned nil"
	}
	// everything the stream started must be gone (a grace period for goroutines
	// that are on their way out: they need no event to finish)
	var left string
	for i := 0; i < 3000; i++ {
		if left = libGoroutines(); left == "" {
			break
		}
		time.Sleep(10 * time.Millisecond)
	}
	if left != "" {
		return fmt.Sprintf("the handler failed at delivery %d while the master was %d packets ahead; 30 s after Stream and Error() returned a goroutine of the stream is still there: %s", in.FailAt, 2*in.N, left)
	}
	for i, cl := range out.Clients {
		if cl != nil && !cl.IsClosed() {
			return fmt.Sprintf("connection %d is still open after Stream returned", i)
		}
	}
	return ""
}

// RunBacklogTeardown is the scale half of C05.
func RunBacklogTeardown(r *chk.Run) {
	sizes := []int{100, 600, 1100, 2100, 4200, 9000}
	if r.Thorough() {
		sizes = append(sizes, 17000, 33000, 70000)
	}
	var cnt int64
	for _, n := range sizes {
		for _, at := range []int{0, 3} {
			if r.Expired() {
				r.SetExhaustive(false)
				return
			}
			if r.Violated() {
				break // one counterexample is enough: a stream that does not end costs a minute per execution
			}
			in := BacklogInput{N: n, FailAt: at}
			cnt++
			if why := checkBacklog(in); why != "" {
				r.Report(chk.Violation{Key: "teardown-with-backlog", What: why, Kind: "backlog", Replay: in, Recheck: func() string { return checkBacklog(in) }})
			}
		}
	}
	r.Eval(cnt)
	r.DistinctN(cnt)
	r.Set("backlog_teardown", fmt.Sprintf("%d executions: the master has written 2 x {100 .. %d} event packets (and stays silent) when the handler fails at its first / fourth call; Stream and Error() return, no goroutine of the stream and no open connection is left (grace period 30 s)", cnt, sizes[len(sizes)-1]))
	r.Rule("scale half (native, one schedule per execution): the backlog between the master and the handler swept over 2^k-ish sizes; oracle: Stream returns the handler's failure, Error() returns, nothing of the stream is left")
	r.SetExhaustive(true)
}

// ---- C08: everything that was delivered is kept ---------------------------------------

// RunScaleKept is the scale half of C08: the handler keeps every transaction and
// they are read again when the stream has ended.
func RunScaleKept(r *chk.Run) {
	RunScale(r, "big-events", "kept-cells", "many-rows", "cap-transactions", "packet-sizes", "big-transaction")
	RunPartialImages(r)
	RunKeptMarshal(r)
	r.Rule("scale half (native, one schedule per execution): histories that are large in one dimension (rows events of 6 KB .. 300 KB, packets of exactly 2^k-1 / 2^k / 2^k+1 bytes and around the sizes at which the driver changes its buffering, transactions with exactly as many events as each capacity a growing slice passes through, 8000 kept rows on one table id, one transaction of 20000 rows events); oracle: every delivered transaction equals the reference when it is delivered and again, unchanged, when the stream has ended")
	r.SetExhaustive(true)
}

// appendCaps lists the capacities a slice of pointers passes through when it
// grows by append from capacity 10 (the run-time's growth policy, read off the
// run-time itself).
func appendCaps(max int) []int {
	s := make([]*int, 0, 10)
	caps := []int{10}
	for len(s) < max {
		s = append(s, nil)
		if c := cap(s); c != caps[len(caps)-1] {
			caps = append(caps, c)
		}
	}
	return caps
}

// packetSizes: the sizes of the packet-sizes history, ascending, then the
// sizes around the driver's cached-buffer limit once more after a larger one.
func packetSizes() []int {
	var out []int
	for k := 12; k <= 16; k++ {
		out = append(out, 1<<k-1, 1<<k, 1<<k+1)
	}
	out = append(out, 258047, 258048, 260000, 262143, 262144, 262145, 300000, 262144, 262143, 4096)
	return out
}

// sizedRows builds a one-row WRITE rows event on t (id, title, body) whose
// PACKET (the event behind the one-byte OK marker) has exactly size bytes.
func sizedRows(cfg ref.Cfg, ts uint32, t *ref.Table, i, size int) *ref.AEvent {
	mk := func(l int) *ref.AEvent {
		return ref.R(ts, ref.RowWrite, t, ref.RowChange{After: ref.Image{ref.VInt(ref.TLong, int64(i), false),
			ref.VVarchar(300, []byte(fmt.Sprintf("document number %d", i))), ref.VBlob(4, bytes.Repeat([]byte{byte('a' + i%26)}, l))}})
	}
	probe := &ref.History{Cfg: cfg, Files: []*ref.File{{Name: "p", Events: []*ref.AEvent{mk(0)}}}}
	probe.Layout()
	over := len(probe.Files[0].Events[0].Bytes) + 1
	if size < over {
		size = over
	}
	return mk(size - over)
}

// ---- C06 / C07: the caller's context carries a deadline ---------------------------------

// CtxInput: one execution under a context with a deadline.
type CtxInput struct {
	Case string  `json:"case"` // "far-deadline" | "error-after-deadline"
	Cfg  ref.Cfg `json:"cfg"`
}

func checkCtx(in CtxInput) string {
	g := &Gen{Cfg: in.Cfg}
	h := g.Build([]string{UTxXID, UDDL, UTx2})
	start := ref.Position{File: h.Files[0].Name, Pos: 4}
	served, _ := h.Serve(start.File, 4)
	exp, _ := ref.Expect(served, start)
	switch in.Case {
	case "far-deadline":
		// a bounded stream is still a blocking dump: the request is the same, so is what is delivered
		out := Run(h, Opts{Start: start, ServerID: 77, LockStep: true, Deadline: time.Hour})
		if out.Hung {
			return "HUNG"
		}
		if out.StreamPanic[0] != "" {
			return "panic in Stream: " + firstLine(out.StreamPanic[0])
		}
		d := out.DumpOf(0)
		if d == nil {
			return "no dump request"
		}
		if d.Flags != 0 {
			return fmt.Sprintf("the caller's context has a deadline (an hour ahead): the dump request carries flags %#x, a blocking dump has 0", d.Flags)
		}
		if d.File != start.File || uint64(d.Pos) != start.Pos || d.ServerID != 77 {
			return fmt.Sprintf("the caller's context has a deadline: dump request %s", d)
		}
		if out.StreamErr[0] != nil {
			return "Stream failed on a well-formed binlog: " + clip(out.StreamErr[0].Error(), 200)
		}
		return hx.CompareAll(exp, out.Snaps())
	case "error-after-deadline":
		// the master ends the dump with an ERR packet; the caller reads Error() only
		// after the deadline of its context has passed: the reason must still be there
		spec := ref.ErrSpec{Code: 1236, State: "HY000", Message: "binary log purged while the replica was away"}
		out := Run(h, Opts{Start: start, ServerID: 77, LockStep: true, Deadline: 1500 * time.Millisecond, ErrorAfterDeadline: true,
			Plans: []simmaster.Plan{{At: 6, Kind: "err", Err: spec, Final: "eof"}}})
		if out.Hung {
			return "HUNG"
		}
		if out.StreamPanic[0] != "" {
			return "panic in Stream: " + firstLine(out.StreamPanic[0])
		}
		if !out.InTime[0] {
			return "" // the machine was too busy: Stream itself ran into the deadline, nothing to conclude
		}
		if out.StreamErr[0] == nil && out.Err1[0] == nil {
			return "the master ended the dump with ERR 1236 before the deadline of the caller's context; Stream returned nil and Error(), asked after the deadline had passed, returned nil as well: the reason is lost"
		}
		if out.Err1[0] != nil && !strings.Contains(out.Err1[0].Error(), spec.Message) {
			return fmt.Sprintf("Error() = %q does not carry the master's message", clip(out.Err1[0].Error(), 150))
		}
	}
	return ""
}

// RunContexts is part of the native halves of C06 and C07.
func RunContexts(r *chk.Run) {
	var n int64
	for _, cfg := range []ref.Cfg{Cfgs()[0], Cfgs()[15]} {
		for _, c := range []string{"far-deadline", "error-after-deadline"} {
			in := CtxInput{Case: c, Cfg: cfg}
			n++
			if why := checkCtx(in); why == "HUNG" {
				hungViolation(r, "checkCtx", "ctx", in)
			} else if why != "" {
				r.Report(chk.Violation{Key: "context:" + c, What: fmt.Sprintf("cfg=%s: %s", CfgName(cfg), why), Kind: "ctx", Replay: in, Recheck: func() string { return checkCtx(in) }})
			}
		}
	}
	r.Eval(n)
	r.DistinctN(n)
	r.Set("context_executions", fmt.Sprintf("%d: the caller's context carries a deadline an hour ahead (same blocking dump request, same deliveries); the master ends the dump with an ERR packet and Error() is read after the 1.5 s deadline of the context has passed (only when Stream had returned before it)", n))
}

// RunKeptMarshal: the handler keeps every transaction; when the stream has ended
// each one is serialised to JSON and read again: rendering a value is a read,
// the value must still be what was delivered (statements of every DDL text of the
// generator, one of them not valid UTF-8; rows with every kind of cell).
func RunKeptMarshal(r *chk.Run) {
	var n int64
	for _, cfg := range []ref.Cfg{Cfgs()[1], Cfgs()[14]} {
		units := []string{UTxXID, UTx2, UAutoRows, USet, UStmtOut}
		for k := 0; k < 13; k++ {
			units = append(units, UDDL)
		}
		in := HistInput{Units: units, Cfg: cfg, LockStep: true}
		h := in.build()
		start := ref.Position{File: h.Files[0].Name, Pos: 4}
		out := Run(h, Opts{Start: start, ServerID: 3, LockStep: true, KeepTx: true})
		n++
		if out.Hung {
			hungViolation(r, "kept transactions", "history", in)
		}
		why := ""
		for i, d := range out.Deliveries {
			if d.Tx == nil {
				continue
			}
			if _, err := json.Marshal(d.Tx); err != nil {
				why = fmt.Sprintf("delivery %d: json.Marshal: %v", i, err)
				break
			}
			if diff := d.Snap.Diff(hx.Snapshot(d.Tx)); diff != "" {
				why = fmt.Sprintf("delivery %d reads differently after it was serialised to JSON: %s", i, diff)
				break
			}
		}
		if why != "" {
			r.Report(chk.Violation{Key: "changed-by-marshal", What: fmt.Sprintf("cfg=%s: %s", CfgName(cfg), why), Kind: "keptmarshal", Replay: in})
		}
	}
	r.Eval(n)
	r.DistinctN(n)
}
