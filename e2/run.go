package e2

import (
	"context"
	"fmt"
	"net"
	"strconv"
	"sync"
	"sync/atomic"
	"time"

	gobinlog "github.com/Breeze0806/gobinlog"
	"github.com/Breeze0806/mysql"
	"verif/chk"
	"verif/hx"
	"verif/nmem"
	"verif/ref"
	"verif/simmaster"
)

// Opts configures one execution.
type Opts struct {
	Start    ref.Position
	ServerID uint32
	Plans    []simmaster.Plan // per attempt; default NoFault
	Attempts int              // number of Stream calls (default 1)
	LockStep bool
	FailAt   int // handler fails at the k-th delivery overall (-1 never; 0 value means never unless FailSet)
	FailSet  bool
	Mapper   *hx.Mapper // default: tables of the history
	KeepTx   bool       // keep the delivered *Transaction pointers
	TCP      bool       // serve the master over a real loopback TCP socket (driver's standard dialer)
	// WaitAllReleased: the failing handler call waits until the master has
	// written every packet of the dump and the client side has stopped consuming
	WaitAllReleased bool
	// Wipe: the handler overwrites everything it was given after its snapshot (hx.Wipe)
	Wipe bool
	// Reposition[a], when set, is given to SetBinlogPosition before attempt a (a > 0)
	Reposition map[int]ref.Position
	// Deadline > 0: the caller's context carries a deadline that far ahead;
	// ErrorAfterDeadline: Error() is asked only after that deadline has passed
	// (Outcome.InTime tells whether Stream had returned before it)
	Deadline           time.Duration
	ErrorAfterDeadline bool
	// DSNParams is appended to the data source name ("?loc=...&parseTime=true")
	DSNParams string
	// HungAfter: seconds after which an attempt that has not returned counts as hung (default 60)
	HungAfter int
	// Nest is called inside every handler call (with the index of the delivery)
	Nest func(k int)
}

type tcpServer struct{ *net.TCPConn }

func (t tcpServer) Reset() {
	t.TCPConn.SetLinger(0)
	t.TCPConn.Close()
}

// TCPAvailable reports whether a loopback listener can be opened here.
func TCPAvailable() bool {
	l, err := net.Listen("tcp", "127.0.0.1:0")
	if err != nil {
		return false
	}
	l.Close()
	return true
}

// Delivery is one handler call.
type Delivery struct {
	Attempt  int
	Snap     hx.TxSnap
	Released int // stream packets released by the master when the handler was entered
	Accepted bool
	Tx       *gobinlog.Transaction
}

// stalls counts the executions of this process that the watchdog ended.
var stalls atomic.Int64

func init() { chk.StallCount = stalls.Load }

// sinkTimeout is a refusal that calls itself temporary.
type sinkTimeout struct{}

func (sinkTimeout) Error() string   { return "scripted handler failure: sink i/o timeout" }
func (sinkTimeout) Timeout() bool   { return true }
func (sinkTimeout) Temporary() bool { return true }

// Outcome is what one execution produced.
type Outcome struct {
	Deliveries  []Delivery
	StreamErr   []error
	StreamPanic []string
	Err1        []error
	Master      *simmaster.Master
	Mapper      *hx.Mapper
	Hung        bool
	InTime      []bool       // per attempt: Stream returned before the deadline of its context
	Clients     []*nmem.Conn // client ends of the in-memory connections, in dial order
}

type session struct {
	master  *simmaster.Master
	mu      sync.Mutex
	servers []*nmem.Conn
	clients []*nmem.Conn
	lock    bool
}

var (
	sessions sync.Map // id -> *session
	nextID   atomic.Int64
	regOnce  sync.Once
)

func dial(ctx context.Context, address string) (net.Conn, error) {
	v, ok := sessions.Load(address)
	if !ok {
		return nil, fmt.Errorf("nmem: no session %q", address)
	}
	s := v.(*session)
	cl, sv := nmem.Pair()
	s.mu.Lock()
	idx := s.master.NewConnLog()
	s.servers = append(s.servers, sv)
	s.clients = append(s.clients, cl)
	s.mu.Unlock()
	go s.master.Serve(idx, sv)
	return cl, nil
}

func setup() {
	regOnce.Do(func() {
		mysql.RegisterDialContext("nmem", dial)
		hx.Silence()
	})
}

// TablesOf returns the distinct tables announced in a history (first
// definition per name).
func TablesOf(h *ref.History) []*ref.Table {
	var out []*ref.Table
	seen := map[string]bool{}
	for _, f := range h.Files {
		for _, ev := range f.Events {
			if ev.Kind == ref.ATableMap && !seen[ev.Table.DB+"."+ev.Table.Name] {
				seen[ev.Table.DB+"."+ev.Table.Name] = true
				out = append(out, ev.Table)
			}
		}
	}
	return out
}

// Runner is one Streamer with its master: Start creates both (NewStreamer and
// SetBinlogPosition), every Attempt is one Stream call followed by Error(),
// Close ends it. Run is Start + the attempts of o + Close.
type Runner struct {
	h       *ref.History
	o       Opts
	s       *session
	id      string
	st      *gobinlog.Streamer
	out     *Outcome
	ndel    int
	natt    int
	cleanup []func()
}

// Streamer gives access to the object under test (setters between attempts).
func (r *Runner) Streamer() *gobinlog.Streamer { return r.st }

// Outcome is what has been observed so far.
func (r *Runner) Outcome() *Outcome { return r.out }

// Start builds the master, the mapper and the Streamer and sets its start position.
func Start(h *ref.History, o Opts) *Runner {
	setup()
	id := strconv.FormatInt(nextID.Add(1), 10)
	s := &session{master: &simmaster.Master{H: h, Plans: o.Plans}, lock: o.LockStep}
	if o.LockStep {
		s.master.AfterPacket = func(ci, i int) {
			s.mu.Lock()
			sv := s.servers[ci]
			s.mu.Unlock()
			if sv != nil {
				sv.WaitPeerIdle()
			}
		}
	}
	sessions.Store(id, s)
	r := &Runner{h: h, o: o, s: s, id: id}
	r.cleanup = append(r.cleanup, func() { sessions.Delete(id) })
	out := &Outcome{Master: s.master}
	r.out = out
	mapper := o.Mapper
	if mapper == nil {
		mapper = hx.NewMapper(TablesOf(h)...)
	}
	out.Mapper = mapper
	dsn := "u:p@nmem(" + id + ")/d"
	if o.TCP {
		lis, lerr := net.Listen("tcp", "127.0.0.1:0")
		if lerr != nil {
			chk.Fatalf("loopback listener: %v", lerr)
		}
		r.cleanup = append(r.cleanup, func() { lis.Close() })
		dsn = "u:p@tcp(" + lis.Addr().String() + ")/d"
		go func() {
			for {
				c, err := lis.Accept()
				if err != nil {
					return
				}
				s.mu.Lock()
				idx := s.master.NewConnLog()
				s.servers = append(s.servers, nil)
				s.mu.Unlock()
				go s.master.Serve(idx, tcpServer{c.(*net.TCPConn)})
			}
		}()
	}
	st, err := gobinlog.NewStreamer(dsn+o.DSNParams, o.ServerID, mapper)
	if err != nil {
		chk.Fatalf("NewStreamer: %v", err)
	}
	st.SetBinlogPosition(gobinlog.Position{Filename: o.Start.File, Offset: int64(o.Start.Pos)})
	r.st = st
	return r
}

// Close releases the session and returns the outcome.
func (r *Runner) Close() *Outcome {
	r.s.mu.Lock()
	r.out.Clients = append(r.out.Clients[:0], r.s.clients...)
	r.s.mu.Unlock()
	for _, f := range r.cleanup {
		f()
	}
	r.cleanup = nil
	return r.out
}

// Run executes the attempts of o against history h (already laid out).
func Run(h *ref.History, o Opts) *Outcome {
	r := Start(h, o)
	n := o.Attempts
	if n == 0 {
		n = 1
	}
	for a := 0; a < n; a++ {
		if !r.Attempt() {
			break
		}
	}
	return r.Close()
}

// Attempt is one Stream call (and the Error() call behind it) of the Streamer;
// false: it did not return within 60 s (Outcome.Hung).
func (r *Runner) Attempt() bool {
	o, s, st, out := r.o, r.s, r.st, r.out
	a := r.natt
	r.natt++
	{
		att := a
		if p, ok := o.Reposition[a]; ok && a > 0 {
			st.SetBinlogPosition(gobinlog.Position{Filename: p.File, Offset: int64(p.Pos)})
		}
		handler := func(tx *gobinlog.Transaction) error {
			d := Delivery{Attempt: att, Snap: hx.Snapshot(tx)}
			if o.KeepTx {
				d.Tx = tx
			}
			s.mu.Lock()
			if att < len(s.master.Logs) {
				d.Released = int(atomic.LoadInt64(&s.master.Logs[len(s.master.Logs)-1].Releasing))
			}
			s.mu.Unlock()
			k := r.ndel
			r.ndel++
			d.Accepted = !(o.FailSet && k == o.FailAt)
			if !d.Accepted && o.WaitAllReleased {
				s.waitBacklog()
			}
			out.Deliveries = append(out.Deliveries, d)
			if o.Wipe {
				hx.Wipe(tx)
			}
			if o.Nest != nil {
				o.Nest(k)
			}
			if !d.Accepted {
				// the identity of the refusal must not matter: every other one is a
				// timeout in the idiom of package net (Timeout / Temporary)
				if k%2 == 1 {
					return sinkTimeout{}
				}
				return fmt.Errorf("scripted handler failure")
			}
			return nil
		}
		done := make(chan struct{})
		var serr, e1 error
		var pan string
		inTime := true
		go func() {
			defer close(done)
			pan = chk.Catch(func() {
				ctx := context.Background()
				if o.Deadline > 0 {
					var cancel context.CancelFunc
					ctx, cancel = context.WithTimeout(ctx, o.Deadline)
					defer cancel()
				}
				serr = st.Stream(ctx, handler)
				inTime = ctx.Err() == nil
				if o.ErrorAfterDeadline && o.Deadline > 0 {
					<-ctx.Done()
				}
				e1 = st.Error()
			})
		}()
		// the watchdog: a minute, and a second more for every thousand events of the
		// history (the scale histories hold a million events and more)
		limit := 60
		for _, f := range r.h.Files {
			limit += len(f.Events) / 1000
		}
		if o.HungAfter > 0 {
			limit = o.HungAfter
		}
		select {
		case <-done:
		case <-time.After(time.Duration(limit) * time.Second):
			out.Hung = true
			stalls.Add(1)
			return false
		}
		out.StreamErr = append(out.StreamErr, serr)
		out.StreamPanic = append(out.StreamPanic, pan)
		out.Err1 = append(out.Err1, e1)
		out.InTime = append(out.InTime, inTime)
	}
	return true
}

// waitBacklog returns when the master has written the whole dump of the
// latest connection and the client has stopped taking bytes off it (it waits
// for a state, not for a time: at most 30 s, after which the execution goes on
// with whatever backlog there is).
func (s *session) waitBacklog() {
	deadline := time.Now().Add(30 * time.Second)
	stable, last := 0, -1
	for time.Now().Before(deadline) {
		s.mu.Lock()
		var log *simmaster.ConnLog
		var cl *nmem.Conn
		if n := len(s.master.Logs); n > 0 && n <= len(s.clients) {
			log, cl = s.master.Logs[n-1], s.clients[n-1]
		}
		s.mu.Unlock()
		if log == nil {
			time.Sleep(time.Millisecond)
			continue
		}
		// (Served is written before the first release: the atomic load orders the read)
		if rel := int(atomic.LoadInt64(&log.Releasing)); log != nil && cl != nil && rel > 0 && rel >= len(log.Served) {
			if p := cl.Pending(); p == last {
				stable++
				if stable >= 30 {
					return
				}
			} else {
				stable, last = 0, p
			}
		}
		time.Sleep(time.Millisecond)
	}
}

// Snaps returns the snapshots of all deliveries.
func (o *Outcome) Snaps() []hx.TxSnap {
	s := make([]hx.TxSnap, len(o.Deliveries))
	for i, d := range o.Deliveries {
		s[i] = d.Snap
	}
	return s
}

// DumpOf returns the dump request of connection i (nil if none).
func (o *Outcome) DumpOf(i int) *ref.DumpRequest {
	if i >= len(o.Master.Logs) {
		return nil
	}
	for _, c := range o.Master.Logs[i].Cmds {
		if c.Code == ref.ComBinlogDump {
			return c.Dump
		}
	}
	return nil
}
