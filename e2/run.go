package e2

import (
	"context"
	"fmt"
	"net"
	"strconv"
	"sync"
	"sync/atomic"
	"time"

	gobinlog "github.com/Breeze0806/gobinlog"
	"github.com/Breeze0806/mysql"
	"verif/chk"
	"verif/hx"
	"verif/nmem"
	"verif/ref"
	"verif/simmaster"
)

// Opts configures one execution.
type Opts struct {
	Start    ref.Position
	ServerID uint32
	Plans    []simmaster.Plan // per attempt; default NoFault
	Attempts int              // number of Stream calls (default 1)
	LockStep bool
	FailAt   int // handler fails at the k-th delivery overall (-1 never; 0 value means never unless FailSet)
	FailSet  bool
	Mapper   *hx.Mapper // default: tables of the history
	KeepTx   bool       // keep the delivered *Transaction pointers
	TCP      bool       // serve the master over a real loopback TCP socket (driver's standard dialer)
}

type tcpServer struct{ *net.TCPConn }

func (t tcpServer) Reset() {
	t.TCPConn.SetLinger(0)
	t.TCPConn.Close()
}

// TCPAvailable reports whether a loopback listener can be opened here.
func TCPAvailable() bool {
	l, err := net.Listen("tcp", "127.0.0.1:0")
	if err != nil {
		return false
	}
	l.Close()
	return true
}

// Delivery is one handler call.
type Delivery struct {
	Attempt  int
	Snap     hx.TxSnap
	Released int // stream packets released by the master when the handler was entered
	Accepted bool
	Tx       *gobinlog.Transaction
}

// Outcome is what one execution produced.
type Outcome struct {
	Deliveries  []Delivery
	StreamErr   []error
	StreamPanic []string
	Err1        []error
	Master      *simmaster.Master
	Mapper      *hx.Mapper
	Hung        bool
}

type session struct {
	master  *simmaster.Master
	mu      sync.Mutex
	servers []*nmem.Conn
	lock    bool
}

var (
	sessions sync.Map // id -> *session
	nextID   atomic.Int64
	regOnce  sync.Once
)

func dial(ctx context.Context, address string) (net.Conn, error) {
	v, ok := sessions.Load(address)
	if !ok {
		return nil, fmt.Errorf("nmem: no session %q", address)
	}
	s := v.(*session)
	cl, sv := nmem.Pair()
	s.mu.Lock()
	idx := s.master.NewConnLog()
	s.servers = append(s.servers, sv)
	s.mu.Unlock()
	go s.master.Serve(idx, sv)
	return cl, nil
}

func setup() {
	regOnce.Do(func() {
		mysql.RegisterDialContext("nmem", dial)
		hx.Silence()
	})
}

// TablesOf returns the distinct tables announced in a history (first
// definition per name).
func TablesOf(h *ref.History) []*ref.Table {
	var out []*ref.Table
	seen := map[string]bool{}
	for _, f := range h.Files {
		for _, ev := range f.Events {
			if ev.Kind == ref.ATableMap && !seen[ev.Table.DB+"."+ev.Table.Name] {
				seen[ev.Table.DB+"."+ev.Table.Name] = true
				out = append(out, ev.Table)
			}
		}
	}
	return out
}

// Run executes the attempts of o against history h (already laid out).
func Run(h *ref.History, o Opts) *Outcome {
	setup()
	id := strconv.FormatInt(nextID.Add(1), 10)
	s := &session{master: &simmaster.Master{H: h, Plans: o.Plans}, lock: o.LockStep}
	if o.LockStep {
		s.master.AfterPacket = func(ci, i int) {
			s.mu.Lock()
			sv := s.servers[ci]
			s.mu.Unlock()
			if sv != nil {
				sv.WaitPeerIdle()
			}
		}
	}
	sessions.Store(id, s)
	defer sessions.Delete(id)
	out := &Outcome{Master: s.master}
	mapper := o.Mapper
	if mapper == nil {
		mapper = hx.NewMapper(TablesOf(h)...)
	}
	out.Mapper = mapper
	dsn := "u:p@nmem(" + id + ")/d"
	if o.TCP {
		lis, lerr := net.Listen("tcp", "127.0.0.1:0")
		if lerr != nil {
			chk.Fatalf("loopback listener: %v", lerr)
		}
		defer lis.Close()
		dsn = "u:p@tcp(" + lis.Addr().String() + ")/d"
		go func() {
			for {
				c, err := lis.Accept()
				if err != nil {
					return
				}
				s.mu.Lock()
				idx := s.master.NewConnLog()
				s.servers = append(s.servers, nil)
				s.mu.Unlock()
				go s.master.Serve(idx, tcpServer{c.(*net.TCPConn)})
			}
		}()
	}
	st, err := gobinlog.NewStreamer(dsn, o.ServerID, mapper)
	if err != nil {
		chk.Fatalf("NewStreamer: %v", err)
	}
	st.SetBinlogPosition(gobinlog.Position{Filename: o.Start.File, Offset: int64(o.Start.Pos)})
	n := o.Attempts
	if n == 0 {
		n = 1
	}
	ndel := 0
	for a := 0; a < n; a++ {
		att := a
		handler := func(tx *gobinlog.Transaction) error {
			d := Delivery{Attempt: att, Snap: hx.Snapshot(tx)}
			if o.KeepTx {
				d.Tx = tx
			}
			s.mu.Lock()
			if att < len(s.master.Logs) {
				d.Released = int(atomic.LoadInt64(&s.master.Logs[len(s.master.Logs)-1].Releasing))
			}
			s.mu.Unlock()
			k := ndel
			ndel++
			d.Accepted = !(o.FailSet && k == o.FailAt)
			out.Deliveries = append(out.Deliveries, d)
			if !d.Accepted {
				return fmt.Errorf("scripted handler failure")
			}
			return nil
		}
		done := make(chan struct{})
		var serr, e1 error
		var pan string
		go func() {
			defer close(done)
			pan = chk.Catch(func() {
				serr = st.Stream(context.Background(), handler)
				e1 = st.Error()
			})
		}()
		select {
		case <-done:
		case <-time.After(60 * time.Second):
			out.Hung = true
			return out
		}
		out.StreamErr = append(out.StreamErr, serr)
		out.StreamPanic = append(out.StreamPanic, pan)
		out.Err1 = append(out.Err1, e1)
	}
	return out
}

// Snaps returns the snapshots of all deliveries.
func (o *Outcome) Snaps() []hx.TxSnap {
	s := make([]hx.TxSnap, len(o.Deliveries))
	for i, d := range o.Deliveries {
		s[i] = d.Snap
	}
	return s
}

// DumpOf returns the dump request of connection i (nil if none).
func (o *Outcome) DumpOf(i int) *ref.DumpRequest {
	if i >= len(o.Master.Logs) {
		return nil
	}
	for _, c := range o.Master.Logs[i].Cmds {
		if c.Code == ref.ComBinlogDump {
			return c.Dump
		}
	}
	return nil
}
