#!/bin/sh
# usage: reseed.sh <seed-id> <check-id>...   re-verifies a STORED seed (seeded/<id>/) with seedcheck.sh
cd "$(dirname "$0")"
ID=$1; shift
T=/tmp/reseed-$ID; rm -rf $T; mkdir -p $T
cp seeded/$ID/patch.diff $T/ || exit 2
[ -f seeded/$ID/demo_test.go.txt ] && cp seeded/$ID/demo_test.go.txt $T/demo_test.go
[ -f seeded/$ID/notes.md ] && cp seeded/$ID/notes.md $T/
./seedcheck.sh $T $ID "$@"
rm -rf $T
