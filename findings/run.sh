#!/bin/sh
# Runs the explorer-free demonstrations of findings/ against the repository's current tree.
cd "$(dirname "$0")/.." || exit 2
export GOFLAGS=-mod=mod GOPROXY=off GOSUMDB=off GOTOOLCHAIN=local
REPO=${VERIF_REPO:-/repo}
D=$(mktemp -d .build/f.XXXXXX)
trap 'rm -rf "$D"' EXIT
MODFLAG=""
if [ "$REPO" != /repo ]; then
  sed "s#=> /repo#=> $REPO#" go.mod > "$D/go.mod" && cp go.sum "$D/go.sum" || exit 2
  MODFLAG="-modfile=$D/go.mod"
fi
[ -x .build/instr ] || go build -o .build/instr ./instr || exit 2
.build/instr -repo "$REPO" -out "$D/ov" || exit 2
go test $MODFLAG -vet=off -count=1 -overlay "$D/ov/overlay.json" -tags verif -v "$@" ./findings
