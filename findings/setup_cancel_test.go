// Package findings holds plain, explorer-free demonstrations of the findings
// about cancellation during connection setup (C05), on the UNINSTRUMENTED
// library and driver with real goroutines.
//
//	sh findings/run.sh            (builds the export overlay, runs these tests)
package findings

import (
	"strings"
	"testing"

	"verif/e1"
	"verif/e1n"
	"verif/simmaster"
)

func scenario(name, pre, kind string) *e1.Scenario {
	return &e1.Scenario{Name: name, Hist: "H1T", StartFile: "mysql-bin.000001", StartPos: 4, ServerID: 1234, Pacing: "first",
		MapperFailAt: -1, MapperMismatchAt: -1,
		Attempts: []e1.Attempt{{Plan: simmaster.Plan{Pre: pre, At: -1, Final: "silent"}, HandlerMode: "ok", FailAt: -1, BlockAt: -1,
			Cancel: &e1.Trigger{Kind: kind}}}}
}

// The caller cancels while the master's answer to SET @master_binlog_checksum
// is outstanding. Before the repair (fix: commit, see known_findings.json) the
// query ran without the context and Stream stayed blocked (Outcome.Blocked after
// 20 s); with it Stream returns with the cancellation.
func TestCancelWhileSetQueryReplyOutstanding(t *testing.T) {
	out := e1n.Run(scenario("stall-query", "stall_query", "stalled"))
	t.Logf("outcome: %+v", out)
	if out.Blocked || out.Leaked || out.Unclosed || !strings.Contains(out.Key, "stream=cancel") {
		t.Fatalf("Stream must return with the cancellation, leaving nothing behind: %+v", out)
	}
}

// The caller cancels at the moment the dial has returned a connection and the
// driver has not looked at the context yet: connector.Connect (driver v1.4.2)
// returns ctx.Err() from watchCancel without closing the socket and without
// stopping the watcher goroutine it has just started.
// (Runs last: what it leaves behind stays in the process.)
func TestCancelAtDialReturnLeaksSocketAndWatcher(t *testing.T) {
	out := e1n.Run(scenario("dialed", "", "dialed"))
	t.Logf("outcome: %+v", out)
	if !out.Unclosed || !out.Leaked {
		t.Fatalf("expected the connection to stay open and the driver's watcher goroutine to stay alive (known finding), got %+v", out)
	}
}
