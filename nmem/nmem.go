// Package nmem is a native (mutex + condition variable) in-memory duplex
// connection implementing net.Conn, used by the free-running harnesses.
package nmem

import (
	"errors"
	"io"
	"net"
	"sync"
	"syscall"
	"time"
)

// pipe is one direction of a native in-memory connection.
type pipe struct {
	mu      sync.Mutex
	cond    *sync.Cond
	buf     []byte
	wclosed bool
	rclosed bool
	reset   bool
	waiting bool // a reader is blocked on an empty pipe
	read    int64
	written int64
}

func newPipe() *pipe {
	p := &pipe{}
	p.cond = sync.NewCond(&p.mu)
	return p
}

// Conn is one end of a native duplex in-memory connection.
type Conn struct {
	in, out *pipe
	mu      sync.Mutex
	closed  bool
}

var errClosed = errors.New("use of closed network connection")

type opErr struct {
	op  string
	err error
}

func (e *opErr) Error() string   { return e.op + " nmem: " + e.err.Error() }
func (e *opErr) Unwrap() error   { return e.err }
func (e *opErr) Timeout() bool   { return false }
func (e *opErr) Temporary() bool { return false }

// Pair returns the two ends of a new connection.
func Pair() (client, server *Conn) {
	a, b := newPipe(), newPipe()
	return &Conn{in: b, out: a}, &Conn{in: a, out: b}
}

func (c *Conn) IsClosed() bool { c.mu.Lock(); defer c.mu.Unlock(); return c.closed }

func (c *Conn) Read(b []byte) (int, error) {
	p := c.in
	p.mu.Lock()
	defer p.mu.Unlock()
	for len(p.buf) == 0 && !p.wclosed && !p.reset && !p.rclosed {
		p.waiting = true
		p.cond.Broadcast()
		p.cond.Wait()
	}
	p.waiting = false
	switch {
	case p.rclosed:
		return 0, &opErr{"read", errClosed}
	case p.reset:
		return 0, &opErr{"read", syscall.ECONNRESET}
	case len(p.buf) == 0:
		return 0, io.EOF
	}
	n := copy(b, p.buf)
	p.buf = p.buf[n:]
	p.read += int64(n)
	return n, nil
}

func (c *Conn) Write(b []byte) (int, error) {
	if c.IsClosed() {
		return 0, &opErr{"write", errClosed}
	}
	p := c.out
	p.mu.Lock()
	defer p.mu.Unlock()
	if p.rclosed || p.reset {
		return 0, &opErr{"write", syscall.EPIPE}
	}
	p.buf = append(p.buf, b...)
	p.written += int64(len(b))
	p.cond.Broadcast()
	return len(b), nil
}

func (c *Conn) Close() error {
	c.mu.Lock()
	if c.closed {
		c.mu.Unlock()
		return &opErr{"close", errClosed}
	}
	c.closed = true
	c.mu.Unlock()
	c.out.mu.Lock()
	c.out.wclosed = true
	c.out.cond.Broadcast()
	c.out.mu.Unlock()
	c.in.mu.Lock()
	c.in.rclosed = true
	c.in.cond.Broadcast()
	c.in.mu.Unlock()
	return nil
}

// Reset is an abortive close.
func (c *Conn) Reset() {
	c.mu.Lock()
	c.closed = true
	c.mu.Unlock()
	c.out.mu.Lock()
	c.out.reset = true
	c.out.buf = nil
	c.out.cond.Broadcast()
	c.out.mu.Unlock()
	c.in.mu.Lock()
	c.in.rclosed = true
	c.in.cond.Broadcast()
	c.in.mu.Unlock()
}

// WaitPeerIdle blocks until the peer is blocked reading an empty pipe (it has
// consumed everything this end wrote) or has gone away. It is the native
// realisation of lock-step pacing.
func (c *Conn) WaitPeerIdle() {
	p := c.out
	p.mu.Lock()
	for !(p.waiting && len(p.buf) == 0) && !p.rclosed && !p.reset {
		p.cond.Wait()
	}
	p.mu.Unlock()
}

type addr struct{}

func (addr) Network() string { return "nmem" }
func (addr) String() string  { return "nmem" }

func (c *Conn) LocalAddr() net.Addr                { return addr{} }
func (c *Conn) RemoteAddr() net.Addr               { return addr{} }
func (c *Conn) SetDeadline(t time.Time) error      { return nil }
func (c *Conn) SetReadDeadline(t time.Time) error  { return nil }
func (c *Conn) SetWriteDeadline(t time.Time) error { return nil }

// BytesRead is the number of bytes this end has consumed.
func (c *Conn) BytesRead() int64 { c.in.mu.Lock(); defer c.in.mu.Unlock(); return c.in.read }

// BytesWritten is the number of bytes this end has written so far.
func (c *Conn) BytesWritten() int64 { c.out.mu.Lock(); defer c.out.mu.Unlock(); return c.out.written }

// Pending is the number of bytes written by the peer and not yet read.
func (c *Conn) Pending() int { c.in.mu.Lock(); defer c.in.mu.Unlock(); return len(c.in.buf) }
