package main

import (
	"go/ast"
	"go/token"
	"go/types"
	"path/filepath"
	"strconv"
)

// Field-access instrumentation: before every statement that surely reads or
// writes a field of a struct type declared in the package, a call
//
//	vrt.Rd / vrt.Wr(func() interface{} { return &X.f }, "f")
//
// is inserted, so that the explorer's vector-clock race detector sees the plain
// accesses to library state. The analysis is syntactic and deliberately
// UNDER-approximating: only accesses that certainly happen when the statement
// is reached are recorded (operands on the right of && / || are skipped,
// receiver paths that are not plain identifier paths are skipped, and a field
// holding a synchronisation object or another library value type is not
// counted when it is only the receiver of a method call or has its address
// taken: the object synchronises itself).

// selfSync lists package-qualified value types whose methods do their own
// synchronisation or that are handled as opaque values.
var selfSync = map[string]bool{
	"sync.Once": true, "sync.Mutex": true, "sync.RWMutex": true, "sync.WaitGroup": true, "sync.Cond": true,
	"sync.Map": true, "sync.Pool": true, "atomic.Value": true, "atomic.Int32": true, "atomic.Int64": true,
	"atomic.Uint32": true, "atomic.Uint64": true, "atomic.Bool": true, "atomic.Pointer": true,
}

type fieldPass struct {
	fields map[string]bool // field name -> is a self-synchronising value
	r      *rewriter
}

func collectFields(files []*ast.File) map[string]bool {
	out := map[string]bool{}
	for _, f := range files {
		ast.Inspect(f, func(n ast.Node) bool {
			st, ok := n.(*ast.StructType)
			if !ok || st.Fields == nil {
				return true
			}
			for _, fld := range st.Fields.List {
				ss := false
				if se, ok := fld.Type.(*ast.SelectorExpr); ok {
					if id, ok := se.X.(*ast.Ident); ok && selfSync[id.Name+"."+se.Sel.Name] {
						ss = true
					}
				}
				for _, nm := range fld.Names {
					out[nm.Name] = out[nm.Name] || ss
				}
			}
			return true
		})
	}
	return out
}

type access struct {
	x     ast.Expr // X of X.f
	field string
	write bool
	at    token.Pos
}

// purePath reports whether e is an identifier path (a, a.b, (*a).b, ...) that
// can be evaluated a second time without side effects.
func purePath(e ast.Expr) bool {
	switch x := e.(type) {
	case *ast.Ident:
		return true
	case *ast.SelectorExpr:
		return purePath(x.X)
	case *ast.StarExpr:
		return purePath(x.X)
	case *ast.ParenExpr:
		return purePath(x.X)
	}
	return false
}

// reads collects the field reads that certainly happen when e is evaluated.
func (p *fieldPass) reads(e ast.Expr, out *[]access) {
	switch x := e.(type) {
	case nil:
	case *ast.FuncLit:
		// evaluated later, in its own statement lists
	case *ast.ParenExpr:
		p.reads(x.X, out)
	case *ast.BinaryExpr:
		p.reads(x.X, out)
		if x.Op != token.LAND && x.Op != token.LOR {
			p.reads(x.Y, out)
		}
	case *ast.UnaryExpr:
		if x.Op == token.AND {
			// &X.f: the address is taken, the field is not read
			if se, ok := x.X.(*ast.SelectorExpr); ok {
				p.reads(se.X, out)
				return
			}
		}
		p.reads(x.X, out)
	case *ast.StarExpr:
		p.reads(x.X, out)
	case *ast.SelectorExpr:
		if self, isField := p.fields[x.Sel.Name]; isField && !self && purePath(x.X) {
			if _, pkg := x.X.(*ast.Ident); !(pkg && isPkgName(x.X.(*ast.Ident).Name)) {
				*out = append(*out, access{x: x.X, field: x.Sel.Name, at: x.Pos()})
			}
		}
		p.reads(x.X, out)
	case *ast.CallExpr:
		switch f := x.Fun.(type) {
		case *ast.SelectorExpr:
			// method call (or pkg.Func): the receiver expression is evaluated
			if inner, ok := f.X.(*ast.SelectorExpr); ok {
				if self, isField := p.fields[inner.Sel.Name]; isField && self {
					// receiver is a self-synchronising field: do not count the field
					p.reads(inner.X, out)
					break
				}
			}
			p.reads(f.X, out)
		case *ast.FuncLit:
		default:
			p.reads(x.Fun, out)
		}
		for _, a := range x.Args {
			p.reads(a, out)
		}
	case *ast.IndexExpr:
		p.reads(x.X, out)
		p.reads(x.Index, out)
	case *ast.SliceExpr:
		p.reads(x.X, out)
		p.reads(x.Low, out)
		p.reads(x.High, out)
		p.reads(x.Max, out)
	case *ast.TypeAssertExpr:
		p.reads(x.X, out)
	case *ast.CompositeLit:
		for _, el := range x.Elts {
			if kv, ok := el.(*ast.KeyValueExpr); ok {
				p.reads(kv.Value, out)
			} else {
				p.reads(el, out)
			}
		}
	case *ast.KeyValueExpr:
		p.reads(x.Value, out)
	}
}

var pkgNames = map[string]bool{}

func isPkgName(n string) bool { return pkgNames[n] }

// stmtAccesses returns the accesses that certainly happen when st starts.
func (p *fieldPass) stmtAccesses(st ast.Stmt) []access {
	var out []access
	switch s := st.(type) {
	case *ast.ExprStmt:
		p.reads(s.X, &out)
	case *ast.AssignStmt:
		for _, r := range s.Rhs {
			p.reads(r, &out)
		}
		for _, l := range s.Lhs {
			if se, ok := l.(*ast.SelectorExpr); ok && s.Tok != token.DEFINE {
				if _, isField := p.fields[se.Sel.Name]; isField && purePath(se.X) {
					out = append(out, access{x: se.X, field: se.Sel.Name, write: true, at: se.Pos()})
					p.reads(se.X, &out)
					continue
				}
			}
			if ix, ok := l.(*ast.IndexExpr); ok {
				p.reads(ix.X, &out)
				p.reads(ix.Index, &out)
			}
		}
	case *ast.IncDecStmt:
		if se, ok := s.X.(*ast.SelectorExpr); ok {
			if _, isField := p.fields[se.Sel.Name]; isField && purePath(se.X) {
				out = append(out, access{x: se.X, field: se.Sel.Name, write: true, at: se.Pos()})
			}
		}
	case *ast.ReturnStmt:
		for _, r := range s.Results {
			p.reads(r, &out)
		}
	case *ast.SendStmt:
		p.reads(s.Chan, &out)
		p.reads(s.Value, &out)
	case *ast.IfStmt:
		if s.Init != nil {
			out = append(out, p.stmtAccesses(s.Init)...)
		}
		p.reads(s.Cond, &out)
	case *ast.SwitchStmt:
		if s.Init != nil {
			out = append(out, p.stmtAccesses(s.Init)...)
		}
		p.reads(s.Tag, &out)
	case *ast.ForStmt:
		if s.Init != nil {
			out = append(out, p.stmtAccesses(s.Init)...)
		}
	case *ast.RangeStmt:
		p.reads(s.X, &out)
	case *ast.DeferStmt:
		p.callAccesses(s.Call, &out)
	case *ast.GoStmt:
		p.callAccesses(s.Call, &out)
	case *ast.SelectStmt:
		for _, cl := range s.Body.List {
			cc := cl.(*ast.CommClause)
			switch c := cc.Comm.(type) {
			case *ast.SendStmt:
				p.reads(c.Chan, &out)
				p.reads(c.Value, &out)
			case *ast.ExprStmt:
				if u, ok := c.X.(*ast.UnaryExpr); ok {
					p.reads(u.X, &out)
				}
			case *ast.AssignStmt:
				if len(c.Rhs) == 1 {
					if u, ok := c.Rhs[0].(*ast.UnaryExpr); ok {
						p.reads(u.X, &out)
					}
				}
			}
		}
	case *ast.LabeledStmt:
		return p.stmtAccesses(s.Stmt)
	case *ast.DeclStmt:
		if gd, ok := s.Decl.(*ast.GenDecl); ok {
			for _, sp := range gd.Specs {
				if vs, ok := sp.(*ast.ValueSpec); ok {
					for _, v := range vs.Values {
						p.reads(v, &out)
					}
				}
			}
		}
	}
	return out
}

func (p *fieldPass) callAccesses(c *ast.CallExpr, out *[]access) {
	if se, ok := c.Fun.(*ast.SelectorExpr); ok {
		p.reads(se.X, out)
	}
	for _, a := range c.Args {
		p.reads(a, out)
	}
}

func (p *fieldPass) instrStmt(a access) ast.Stmt {
	p.r.usedVrt = true
	fn := "Rd"
	if a.write {
		fn = "Wr"
	}
	addr := &ast.UnaryExpr{Op: token.AND, X: &ast.SelectorExpr{X: a.x, Sel: ast.NewIdent(a.field)}}
	lit := &ast.FuncLit{
		Type: &ast.FuncType{Params: &ast.FieldList{}, Results: &ast.FieldList{List: []*ast.Field{{Type: &ast.InterfaceType{Methods: &ast.FieldList{}}}}}},
		Body: &ast.BlockStmt{List: []ast.Stmt{&ast.ReturnStmt{Results: []ast.Expr{addr}}}},
	}
	pos := p.r.fset.Position(a.at)
	site := "gobinlog field " + types.ExprString(a.x) + "." + a.field + " at " + filepath.Base(pos.Filename) + ":" + strconv.Itoa(pos.Line)
	return &ast.ExprStmt{X: &ast.CallExpr{Fun: vrtSel(fn), Args: []ast.Expr{lit, &ast.BasicLit{Kind: token.STRING, Value: strconv.Quote(site)}}}}
}

func (p *fieldPass) list(in []ast.Stmt) []ast.Stmt {
	out := make([]ast.Stmt, 0, len(in))
	for _, st := range in {
		seen := map[string]bool{}
		for _, a := range p.stmtAccesses(st) {
			k := types.ExprString(a.x) + "." + a.field
			if a.write {
				k += "!"
			}
			if seen[k] {
				continue
			}
			seen[k] = true
			out = append(out, p.instrStmt(a))
		}
		out = append(out, st)
	}
	return out
}

// instrumentFields rewrites every statement list of f.
func (p *fieldPass) instrumentFields(f *ast.File) {
	for _, imp := range f.Imports {
		name := ""
		if imp.Name != nil {
			name = imp.Name.Name
		} else {
			pth, _ := strconv.Unquote(imp.Path.Value)
			name = pth
			for i := len(pth) - 1; i >= 0; i-- {
				if pth[i] == '/' {
					name = pth[i+1:]
					break
				}
			}
		}
		pkgNames[name] = true
	}
	ast.Inspect(f, func(n ast.Node) bool {
		switch b := n.(type) {
		case *ast.BlockStmt:
			b.List = p.list(b.List)
		case *ast.CaseClause:
			b.Body = p.list(b.Body)
		case *ast.CommClause:
			b.Body = p.list(b.Body)
		}
		return true
	})
}
