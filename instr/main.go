// Command instr generates the build overlays from the CURRENT sources of the
// repository:
//
//   - export overlay: adds replication/verif_export.go (build tag verif)
//   - scheduler overlay: every non-test file of package gobinlog rewritten so
//     that its concurrency constructs call the controlled runtime verif/vrt
//
// usage: instr -repo /repo -out /verif/.build/ov [-sched]
//
// The rewrite is purely syntactic. A construct that cannot be mapped makes
// the command fail with "ERROR: cannot instrument <file:line>" (exit 2).
package main

import (
	"bytes"
	"encoding/json"
	"flag"
	"fmt"
	"go/ast"
	"go/parser"
	"go/printer"
	"go/token"
	"os"
	"path/filepath"
	"reflect"
	"sort"
	"strconv"
	"strings"
)

const vrtName = "vrt__"

func fatalf(format string, a ...interface{}) {
	fmt.Printf("ERROR: "+format+"\n", a...)
	os.Exit(2)
}

const exportSrc = `//go:build verif

package replication

// VerifParseGTIDSet exposes the per-flavor GTID-set parsers (unexported
// registry gtidSetParsers) to the verification harness.
func VerifParseGTIDSet(flavor, s string) (GTIDSet, error) {
	p := gtidSetParsers[flavor]
	if p == nil {
		return nil, errVerifNoFlavor
	}
	return p(s)
}

type verifErr string

func (e verifErr) Error() string { return string(e) }

const errVerifNoFlavor = verifErr("unknown GTID set flavor")
`

func main() {
	repo := flag.String("repo", "/repo", "repository root")
	out := flag.String("out", "", "output directory")
	sched := flag.Bool("sched", false, "also rewrite package gobinlog for the controlled scheduler")
	driver := flag.String("driver", "", "with -sched: directory of the driver module github.com/Breeze0806/mysql, whose connection.go / connector.go are rewritten too")
	flag.Parse()
	if *out == "" {
		fatalf("missing -out")
	}
	os.RemoveAll(*out)
	if err := os.MkdirAll(*out, 0o755); err != nil {
		fatalf("%v", err)
	}
	replace := map[string]string{}

	exp := filepath.Join(*out, "verif_export.go")
	if err := os.WriteFile(exp, []byte(exportSrc), 0o644); err != nil {
		fatalf("%v", err)
	}
	replace[filepath.Join(*repo, "replication", "verif_export.go")] = exp

	if *sched {
		files, err := filepath.Glob(filepath.Join(*repo, "*.go"))
		if err != nil {
			fatalf("%v", err)
		}
		rewritePkg(files, *out, "sched_", true, replace)
		if *driver != "" {
			// the driver's context watcher (connection.go / connector.go) becomes a
			// controlled thread too, so that cancellation during connection setup
			// is a schedule the explorer decides
			var dfiles []string
			for _, n := range []string{"connection.go", "connector.go"} {
				dfiles = append(dfiles, filepath.Join(*driver, n))
			}
			rewritePkg(dfiles, *out, "driver_", false, replace)
		}
	}
	ov, _ := json.MarshalIndent(map[string]interface{}{"Replace": replace}, "", " ")
	if err := os.WriteFile(filepath.Join(*out, "overlay.json"), ov, 0o644); err != nil {
		fatalf("%v", err)
	}
}

// rewritePkg rewrites the given non-test files of one package for the
// controlled scheduler and registers the twins in the overlay.
func rewritePkg(files []string, out, prefix string, withFields bool, replace map[string]string) {
	sort.Strings(files)
	fset := token.NewFileSet()
	var parsed []*ast.File
	var names []string
	for _, f := range files {
		if strings.HasSuffix(f, "_test.go") {
			continue
		}
		af, err := parser.ParseFile(fset, f, nil, 0)
		if err != nil {
			fatalf("cannot parse %s: %v", f, err)
		}
		parsed = append(parsed, af)
		names = append(names, f)
	}
	fields := map[string]bool{}
	if withFields {
		fields = collectFields(parsed)
	}
	rw := &rewriter{fset: fset, chanNames: map[string]bool{}, fields: fields, eager: !withFields}
	for _, af := range parsed {
		rw.collectChanNames(af)
	}
	for i, af := range parsed {
		rw.file(af, names[i])
		var buf bytes.Buffer
		buf.WriteString("//go:build go1.18\n\n")
		cfg := printer.Config{Mode: printer.UseSpaces | printer.TabIndent, Tabwidth: 8}
		if err := cfg.Fprint(&buf, fset, af); err != nil {
			fatalf("print %s: %v", names[i], err)
		}
		dst := filepath.Join(out, prefix+filepath.Base(names[i]))
		if err := os.WriteFile(dst, buf.Bytes(), 0o644); err != nil {
			fatalf("%v", err)
		}
		replace[names[i]] = dst
	}
}

type rewriter struct {
	fset      *token.FileSet
	chanNames map[string]bool // identifiers / field names declared with a channel type
	usedVrt   bool
	fields    map[string]bool
	fname     string
	nsel      int
	eager     bool // goroutines of this package are spawned as eager threads (the driver's watcher)
	doneVars  bool // some file keeps a ctx.Done() channel in a variable
}

func (r *rewriter) goName() string {
	if r.eager {
		return "GoEager"
	}
	return "Go"
}

func (r *rewriter) cannot(n ast.Node, why string) {
	fatalf("cannot instrument %s: %s", r.fset.Position(n.Pos()), why)
}

func vrtSel(name string) ast.Expr {
	return &ast.SelectorExpr{X: ast.NewIdent(vrtName), Sel: ast.NewIdent(name)}
}

// collectChanNames records names declared with a syntactic channel type.
func (r *rewriter) collectChanNames(f *ast.File) {
	ast.Inspect(f, func(n ast.Node) bool {
		switch x := n.(type) {
		case *ast.Field:
			if _, ok := x.Type.(*ast.ChanType); ok {
				for _, id := range x.Names {
					r.chanNames[id.Name] = true
				}
			}
		case *ast.ValueSpec:
			if _, ok := x.Type.(*ast.ChanType); ok {
				for _, id := range x.Names {
					r.chanNames[id.Name] = true
				}
			}
			for i, v := range x.Values {
				if isDoneCall(v) && i < len(x.Names) {
					// done := ctx.Done() kept in a variable: the channel of a context
					x.Values[i] = &ast.CallExpr{Fun: vrtSel("DoneChan"), Args: []ast.Expr{doneCtx(v)}}
					r.chanNames[x.Names[i].Name] = true
					r.doneVars = true
					continue
				}
				if isMakeChan(v) && i < len(x.Names) {
					r.chanNames[x.Names[i].Name] = true
				}
			}
		case *ast.AssignStmt:
			for i, v := range x.Rhs {
				if isDoneCall(v) && i < len(x.Lhs) {
					x.Rhs[i] = &ast.CallExpr{Fun: vrtSel("DoneChan"), Args: []ast.Expr{doneCtx(v)}}
					r.doneVars = true
					if id, ok := x.Lhs[i].(*ast.Ident); ok {
						r.chanNames[id.Name] = true
					}
					if se, ok := x.Lhs[i].(*ast.SelectorExpr); ok {
						r.chanNames[se.Sel.Name] = true
					}
					continue
				}
				if isMakeChan(v) && i < len(x.Lhs) {
					if id, ok := x.Lhs[i].(*ast.Ident); ok {
						r.chanNames[id.Name] = true
					}
					if se, ok := x.Lhs[i].(*ast.SelectorExpr); ok {
						r.chanNames[se.Sel.Name] = true
					}
				}
			}
		}
		return true
	})
}

func isMakeChan(e ast.Expr) bool {
	c, ok := e.(*ast.CallExpr)
	if !ok || len(c.Args) == 0 {
		return false
	}
	id, ok := c.Fun.(*ast.Ident)
	if !ok || id.Name != "make" {
		return false
	}
	_, ok = c.Args[0].(*ast.ChanType)
	return ok
}

// declIsChan looks at the declaration the parser resolved the identifier to (a
// local variable or parameter that shadows a channel of the same name is not a
// channel): known is false when the declaration does not tell.
func (r *rewriter) declIsChan(id *ast.Ident, depth int) (known, isChan bool) {
	if id.Obj == nil || depth > 4 {
		return false, false
	}
	typeIsChan := func(t ast.Expr) (bool, bool) {
		if t == nil {
			return false, false
		}
		if _, ok := t.(*ast.ChanType); ok {
			return true, true
		}
		if chanElem(t) != nil {
			return true, true
		}
		switch t.(type) {
		case *ast.ArrayType, *ast.MapType, *ast.StructType, *ast.FuncType, *ast.InterfaceType:
			return true, false
		case *ast.StarExpr:
			return true, false
		case *ast.Ident:
			switch t.(*ast.Ident).Name {
			case "string", "int", "int64", "uint64", "bool", "byte", "error":
				return true, false
			}
		}
		return false, false
	}
	valueIsChan := func(v ast.Expr) (bool, bool) {
		switch y := v.(type) {
		case *ast.Ident:
			return r.declIsChan(y, depth+1)
		case *ast.CompositeLit, *ast.BasicLit, *ast.FuncLit, *ast.SliceExpr, *ast.BinaryExpr:
			return true, false
		case *ast.CallExpr:
			if isMakeChan(y) || isDoneCall(y) {
				return true, true
			}
			if se, ok := y.Fun.(*ast.SelectorExpr); ok {
				if pk, ok := se.X.(*ast.Ident); ok && pk.Name == vrtName && (se.Sel.Name == "DoneChan") {
					return true, true
				}
			}
			if ix, ok := y.Fun.(*ast.IndexExpr); ok {
				if se, ok := ix.X.(*ast.SelectorExpr); ok && se.Sel.Name == "NewChan" {
					return true, true
				}
			}
			if fn, ok := y.Fun.(*ast.Ident); ok {
				switch fn.Name {
				case "make", "append", "new", "len", "cap", "string", "copy":
					return true, false
				}
			}
		}
		return false, false
	}
	switch d := id.Obj.Decl.(type) {
	case *ast.Field:
		return typeIsChan(d.Type)
	case *ast.ValueSpec:
		if k, c := typeIsChan(d.Type); k {
			return k, c
		}
		for i, nm := range d.Names {
			if nm.Name == id.Name && i < len(d.Values) {
				return valueIsChan(d.Values[i])
			}
		}
	case *ast.AssignStmt:
		if len(d.Lhs) == len(d.Rhs) {
			for i, l := range d.Lhs {
				if li, ok := l.(*ast.Ident); ok && li.Name == id.Name {
					return valueIsChan(d.Rhs[i])
				}
			}
		}
	}
	return false, false
}

func (r *rewriter) isChanExpr(e ast.Expr) bool {
	switch x := e.(type) {
	case *ast.Ident:
		if known, c := r.declIsChan(x, 0); known {
			return c
		}
		return r.chanNames[x.Name]
	case *ast.SelectorExpr:
		return r.chanNames[x.Sel.Name]
	case *ast.ParenExpr:
		return r.isChanExpr(x.X)
	case *ast.CallExpr:
		// time.After(d): a channel of the modelled clock
		if se, ok := x.Fun.(*ast.SelectorExpr); ok && se.Sel.Name == "After" {
			if id, ok := se.X.(*ast.Ident); ok && id.Name == "time" {
				return true
			}
		}
	}
	return false
}

func (r *rewriter) file(f *ast.File, name string) {
	r.usedVrt = false
	r.fname = name
	// imports
	for _, imp := range f.Imports {
		p, _ := strconv.Unquote(imp.Path.Value)
		repl := map[string][2]string{
			"context":     {"context", "verif/vrt/vcontext"},
			"sync":        {"sync", "verif/vrt/vsync"},
			"sync/atomic": {"atomic", "verif/vrt/vatomic"},
			"time":        {"time", "verif/vrt/vtime"},
		}
		if p == "time" && r.eager {
			delete(repl, "time") // the driver keeps the real clock (it only uses it for I/O deadlines that are off)
		}
		if rp, ok := repl[p]; ok {
			if imp.Name == nil {
				imp.Name = ast.NewIdent(rp[0])
			}
			imp.Path.Value = strconv.Quote(rp[1])
		}
		if p == "time" {
			// timers are nondeterminism the scheduler does not own
			ast.Inspect(f, func(n ast.Node) bool {
				if se, ok := n.(*ast.SelectorExpr); ok {
					if id, ok := se.X.(*ast.Ident); ok && id.Name == "time" {
						switch se.Sel.Name {
						case "NewTimer", "NewTicker", "Tick", "AfterFunc":
							r.cannot(n, "time."+se.Sel.Name+" is not modelled")
						}
					}
				}
				return true
			})
		}
	}
	// plain field accesses first (on the original shape of the statements)
	if r.fields != nil && os.Getenv("VERIF_NO_FIELD_INSTR") == "" {
		(&fieldPass{fields: r.fields, r: r}).instrumentFields(f)
	}
	// statements first (select, go, send, range), then expressions
	r.walk(reflect.ValueOf(f))
	if r.usedVrt {
		spec := &ast.ImportSpec{Name: ast.NewIdent(vrtName), Path: &ast.BasicLit{Kind: token.STRING, Value: strconv.Quote("verif/vrt")}}
		decl := &ast.GenDecl{Tok: token.IMPORT, Specs: []ast.Spec{spec}}
		f.Decls = append([]ast.Decl{decl}, f.Decls...)
		f.Imports = append(f.Imports, spec)
	}
}

var (
	exprType = reflect.TypeOf((*ast.Expr)(nil)).Elem()
	stmtType = reflect.TypeOf((*ast.Stmt)(nil)).Elem()
	nodeType = reflect.TypeOf((*ast.Node)(nil)).Elem()
)

// walk rewrites the tree rooted at v in post-order: children first, then the
// node itself through rewriteStmt / rewriteExpr where its slot allows.
func (r *rewriter) walk(v reflect.Value) {
	switch v.Kind() {
	case reflect.Ptr:
		if v.IsNil() {
			return
		}
		if _, ok := v.Interface().(*ast.Object); ok {
			return
		}
		if _, ok := v.Interface().(*ast.Scope); ok {
			return
		}
		r.walk(v.Elem())
	case reflect.Interface:
		if v.IsNil() {
			return
		}
		r.walk(v.Elem())
	case reflect.Slice:
		if v.Type().Elem() == stmtType {
			// statement lists: a statement may expand
			for i := 0; i < v.Len(); i++ {
				r.slot(v.Index(i))
			}
			return
		}
		for i := 0; i < v.Len(); i++ {
			r.slot(v.Index(i))
		}
	case reflect.Struct:
		for i := 0; i < v.NumField(); i++ {
			f := v.Field(i)
			if !f.CanSet() {
				continue
			}
			r.slot(f)
		}
	}
}

// slot processes one settable slot: pre-order statement rewrites that must see
// the original shape, recursion, then post-order expression rewrites.
func (r *rewriter) slot(f reflect.Value) {
	switch f.Type() {
	case stmtType:
		if f.IsNil() {
			return
		}
		st := f.Interface().(ast.Stmt)
		if ns := r.preStmt(st); ns != nil {
			f.Set(reflect.ValueOf(ns))
		}
		r.walk(f)
		return
	case exprType:
		if f.IsNil() {
			return
		}
		r.walk(f)
		e := f.Interface().(ast.Expr)
		if ne := r.postExpr(e); ne != nil {
			f.Set(reflect.ValueOf(ne))
		}
		return
	}
	switch f.Kind() {
	case reflect.Ptr, reflect.Interface, reflect.Slice, reflect.Struct:
		// typed pointers to concrete nodes (e.g. *ast.BlockStmt, *ast.FieldList)
		r.walk(f)
		if f.Kind() == reflect.Ptr && !f.IsNil() {
			// defer close(ch) / go close(ch): the call sits in a *ast.CallExpr slot
			if c, ok := f.Interface().(*ast.CallExpr); ok {
				if ne, ok := r.postExpr(c).(*ast.CallExpr); ok && ne != nil {
					f.Set(reflect.ValueOf(ne))
				}
			}
		}
	}
}

// preStmt rewrites statements whose original shape matters. It returns the
// replacement or nil.
func (r *rewriter) preStmt(st ast.Stmt) ast.Stmt {
	switch x := st.(type) {
	case *ast.SelectStmt:
		return r.selectStmt(x)
	case *ast.SendStmt:
		r.usedVrt = true
		return &ast.ExprStmt{X: &ast.CallExpr{
			Fun:  &ast.SelectorExpr{X: x.Chan, Sel: ast.NewIdent("Send")},
			Args: []ast.Expr{x.Value}}}
	case *ast.GoStmt:
		return r.goStmt(x)
	case *ast.AssignStmt:
		// v, ok := <-ch
		if len(x.Lhs) == 2 && len(x.Rhs) == 1 {
			if u, ok := x.Rhs[0].(*ast.UnaryExpr); ok && u.Op == token.ARROW {
				if isDoneCall(u.X) {
					r.cannot(x, "two-value receive from ctx.Done()")
				}
				x.Rhs[0] = &ast.CallExpr{Fun: &ast.SelectorExpr{X: u.X, Sel: ast.NewIdent("Recv2")}}
			}
		}
	case *ast.RangeStmt:
		if r.isChanExpr(x.X) {
			return r.rangeStmt(x)
		}
	case *ast.LabeledStmt:
		if _, ok := x.Stmt.(*ast.SelectStmt); ok {
			r.cannot(x, "labeled select")
		}
	}
	return nil
}

func isDoneCall(e ast.Expr) bool {
	c, ok := e.(*ast.CallExpr)
	if !ok || len(c.Args) != 0 {
		return false
	}
	se, ok := c.Fun.(*ast.SelectorExpr)
	return ok && se.Sel.Name == "Done"
}

func doneCtx(e ast.Expr) ast.Expr { return e.(*ast.CallExpr).Fun.(*ast.SelectorExpr).X }

// postExpr rewrites expressions after their children.
func (r *rewriter) postExpr(e ast.Expr) ast.Expr {
	switch x := e.(type) {
	case *ast.ChanType:
		r.usedVrt = true
		return &ast.StarExpr{X: &ast.IndexExpr{X: vrtSel("Chan"), Index: x.Value}}
	case *ast.UnaryExpr:
		if x.Op == token.ARROW {
			r.usedVrt = true
			if isDoneCall(x.X) {
				return &ast.CallExpr{Fun: vrtSel("WaitDone"), Args: []ast.Expr{doneCtx(x.X)}}
			}
			return &ast.CallExpr{Fun: &ast.SelectorExpr{X: x.X, Sel: ast.NewIdent("Recv")}}
		}
	case *ast.CallExpr:
		id, ok := x.Fun.(*ast.Ident)
		if !ok {
			return nil
		}
		switch id.Name {
		case "make":
			if len(x.Args) >= 1 {
				if elem := chanElem(x.Args[0]); elem != nil {
					r.usedVrt = true
					return &ast.CallExpr{Fun: &ast.IndexExpr{X: vrtSel("NewChan"), Index: elem}, Args: x.Args[1:]}
				}
			}
		case "close":
			if len(x.Args) == 1 {
				r.usedVrt = true
				return &ast.CallExpr{Fun: vrtSel("Close"), Args: x.Args}
			}
		case "len", "cap":
			if len(x.Args) == 1 && r.isChanExpr(x.Args[0]) {
				m := "Len"
				if id.Name == "cap" {
					m = "Cap"
				}
				return &ast.CallExpr{Fun: &ast.SelectorExpr{X: x.Args[0], Sel: ast.NewIdent(m)}}
			}
		}
	}
	return nil
}

// chanElem recognises the rewritten form *vrt.Chan[T] and returns T.
func chanElem(e ast.Expr) ast.Expr {
	st, ok := e.(*ast.StarExpr)
	if !ok {
		return nil
	}
	ix, ok := st.X.(*ast.IndexExpr)
	if !ok {
		return nil
	}
	se, ok := ix.X.(*ast.SelectorExpr)
	if !ok {
		return nil
	}
	if id, ok := se.X.(*ast.Ident); ok && id.Name == vrtName && se.Sel.Name == "Chan" {
		return ix.Index
	}
	return nil
}

func (r *rewriter) goStmt(g *ast.GoStmt) ast.Stmt {
	r.usedVrt = true
	call := g.Call
	if call.Ellipsis.IsValid() {
		r.cannot(g, "go statement with variadic spread")
	}
	if lit, ok := call.Fun.(*ast.FuncLit); ok && len(call.Args) == 0 && lit.Type.Params.NumFields() == 0 {
		return &ast.ExprStmt{X: &ast.CallExpr{Fun: vrtSel(r.goName()), Args: []ast.Expr{lit}}}
	}
	// evaluate function value and arguments now, call later
	var lhs, rhs []ast.Expr
	var args []ast.Expr
	fn := ast.NewIdent("_vgf")
	lhs = append(lhs, fn)
	rhs = append(rhs, call.Fun)
	for i, a := range call.Args {
		id := ast.NewIdent("_vga" + strconv.Itoa(i))
		lhs = append(lhs, id)
		rhs = append(rhs, a)
		args = append(args, id)
	}
	// method values (x.f) evaluate their receiver at this point, as `go` does
	body := &ast.BlockStmt{List: []ast.Stmt{&ast.ExprStmt{X: &ast.CallExpr{Fun: fn, Args: args}}}}
	return &ast.BlockStmt{List: []ast.Stmt{
		&ast.AssignStmt{Lhs: lhs, Tok: token.DEFINE, Rhs: rhs},
		&ast.ExprStmt{X: &ast.CallExpr{Fun: vrtSel(r.goName()), Args: []ast.Expr{
			&ast.FuncLit{Type: &ast.FuncType{Params: &ast.FieldList{}}, Body: body}}}},
	}}
}

func (r *rewriter) rangeStmt(x *ast.RangeStmt) ast.Stmt {
	r.usedVrt = true
	if x.Value != nil {
		r.cannot(x, "range over channel with two variables")
	}
	okID := ast.NewIdent("_vok")
	var key ast.Expr = ast.NewIdent("_")
	tok := token.DEFINE
	if x.Key != nil {
		key = x.Key
		if x.Tok == token.ASSIGN {
			// existing variable: receive into temporaries
			tmp := ast.NewIdent("_vrv")
			recv := &ast.AssignStmt{Lhs: []ast.Expr{tmp, okID}, Tok: token.DEFINE,
				Rhs: []ast.Expr{&ast.CallExpr{Fun: &ast.SelectorExpr{X: x.X, Sel: ast.NewIdent("Recv2")}}}}
			brk := &ast.IfStmt{Cond: &ast.UnaryExpr{Op: token.NOT, X: okID}, Body: &ast.BlockStmt{List: []ast.Stmt{&ast.BranchStmt{Tok: token.BREAK}}}}
			asg := &ast.AssignStmt{Lhs: []ast.Expr{key}, Tok: token.ASSIGN, Rhs: []ast.Expr{tmp}}
			x.Body.List = append([]ast.Stmt{recv, brk, asg}, x.Body.List...)
			return &ast.ForStmt{Body: x.Body}
		}
	}
	recv := &ast.AssignStmt{Lhs: []ast.Expr{key, okID}, Tok: tok,
		Rhs: []ast.Expr{&ast.CallExpr{Fun: &ast.SelectorExpr{X: x.X, Sel: ast.NewIdent("Recv2")}}}}
	brk := &ast.IfStmt{Cond: &ast.UnaryExpr{Op: token.NOT, X: okID}, Body: &ast.BlockStmt{List: []ast.Stmt{&ast.BranchStmt{Tok: token.BREAK}}}}
	x.Body.List = append([]ast.Stmt{recv, brk}, x.Body.List...)
	return &ast.ForStmt{Body: x.Body}
}

func (r *rewriter) selectStmt(s *ast.SelectStmt) ast.Stmt {
	r.usedVrt = true
	r.nsel++
	var pre []ast.Stmt
	var args []ast.Expr
	var clauses []ast.Stmt
	hasDefault := false
	idx := 0
	for _, cl := range s.Body.List {
		cc := cl.(*ast.CommClause)
		if cc.Comm == nil {
			hasDefault = true
			clauses = append(clauses, &ast.CaseClause{
				List: []ast.Expr{&ast.UnaryExpr{Op: token.SUB, X: &ast.BasicLit{Kind: token.INT, Value: "1"}}},
				Body: cc.Body})
			continue
		}
		name := ast.NewIdent(fmt.Sprintf("_vc%d_%d", r.nsel, idx))
		var mk ast.Expr
		var head []ast.Stmt
		switch c := cc.Comm.(type) {
		case *ast.SendStmt:
			mk = &ast.CallExpr{Fun: vrtSel("SendCase"), Args: []ast.Expr{c.Chan, c.Value}}
		case *ast.ExprStmt:
			u, ok := c.X.(*ast.UnaryExpr)
			if !ok || u.Op != token.ARROW {
				r.cannot(cc, "unsupported select communication")
			}
			mk = r.recvCase(u.X)
		case *ast.AssignStmt:
			if len(c.Rhs) != 1 {
				r.cannot(cc, "unsupported select communication")
			}
			u, ok := c.Rhs[0].(*ast.UnaryExpr)
			if !ok || u.Op != token.ARROW {
				r.cannot(cc, "unsupported select communication")
			}
			if isDoneCall(u.X) {
				r.cannot(cc, "assignment from ctx.Done() in select")
			}
			mk = r.recvCase(u.X)
			var rhs ast.Expr
			if len(c.Lhs) == 2 {
				rhs = &ast.CallExpr{Fun: &ast.SelectorExpr{X: name, Sel: ast.NewIdent("Value")}}
			} else {
				rhs = &ast.CallExpr{Fun: &ast.SelectorExpr{X: name, Sel: ast.NewIdent("Val")}}
			}
			head = append(head, &ast.AssignStmt{Lhs: c.Lhs, Tok: c.Tok, Rhs: []ast.Expr{rhs}})
		default:
			r.cannot(cc, "unsupported select communication")
		}
		pre = append(pre, &ast.AssignStmt{Lhs: []ast.Expr{name}, Tok: token.DEFINE, Rhs: []ast.Expr{mk}})
		args = append(args, name)
		// silence "declared and not used" for := variables that are unused: not
		// possible in valid Go, nothing to do.
		clauses = append(clauses, &ast.CaseClause{
			List: []ast.Expr{&ast.BasicLit{Kind: token.INT, Value: strconv.Itoa(idx)}},
			Body: append(head, cc.Body...)})
		idx++
	}
	clauses = append(clauses, &ast.CaseClause{Body: []ast.Stmt{&ast.ExprStmt{X: &ast.CallExpr{
		Fun: ast.NewIdent("panic"), Args: []ast.Expr{&ast.BasicLit{Kind: token.STRING, Value: `"vrt: bad select index"`}}}}}})
	hd := "false"
	if hasDefault {
		hd = "true"
	}
	call := &ast.CallExpr{Fun: vrtSel("Select"), Args: append([]ast.Expr{ast.NewIdent(hd)}, args...)}
	sw := &ast.SwitchStmt{Tag: call, Body: &ast.BlockStmt{List: clauses}}
	return &ast.BlockStmt{List: append(pre, sw)}
}

func (r *rewriter) recvCase(ch ast.Expr) ast.Expr {
	if isDoneCall(ch) {
		return &ast.CallExpr{Fun: vrtSel("DoneCase"), Args: []ast.Expr{doneCtx(ch)}}
	}
	return &ast.CallExpr{Fun: vrtSel("RecvCase"), Args: []ast.Expr{ch}}
}
