#!/bin/sh
# usage: mut.sh <name> <file-relative-to-repo> <python-replace-old> <python-replace-new> <check-id>...
# Applies a one-off textual mutation to a scratch copy of /repo, runs the
# repository's own tests there, then the given checks (quick) against it.
name=$1; file=$2; old=$3; new=$4; shift 4
export GOFLAGS=-mod=mod GOPROXY=off GOSUMDB=off GOTOOLCHAIN=local
D=/tmp/mut-$name
rm -rf $D && cp -r /repo $D && rm -rf $D/.git
python3 - "$D/$file" "$old" "$new" <<'PY' || { echo "MUTATION NOT APPLIED"; rm -rf $D; exit 3; }
import sys
p,old,new=sys.argv[1:4]
s=open(p).read()
if s.count(old)!=1:
    print("pattern occurs",s.count(old),"times"); sys.exit(1)
open(p,'w').write(s.replace(old,new))
PY
( cd $D && go build ./... && go test -vet=off -count=1 ./... 2>&1 | tail -3 | sed 's/^/   repo-tests: /' )
for c in "$@"; do
  out=$(VERIF_REPO=$D VERIF_ROOT=/tmp/mutroot-$name /verif/run.sh $c quick 2>&1)
  rc=$?
  echo "   $c: exit=$rc $(echo "$out" | grep -c '^VIOLATION') violation(s): $(echo "$out" | grep -m1 'what:' | cut -c1-220)"
done
rm -rf $D /tmp/mutroot-$name
